#!/bin/sh
# confirm_seed.sh <prop> <variant>: confirm a candidate seeded change in a scratch worktree of /repo HEAD:
# patch applies, demo passes without / fails with, baseline 76 tests pass with it. Writes confirm.json next to the patch.
P=$1; V=$2; SRC=${SEEDDIR:-/root/seed-candidates}/$P/$V
WT=/tmp/cm-$P-$V
git -C /repo worktree add -f --detach $WT HEAD >/dev/null 2>&1 || exit 2
cd $WT
export PYTHONPATH=$WT MPLBACKEND=agg
/venv/bin/python $SRC/demo.py >/tmp/cm-$P-$V.clean.log 2>&1; clean=$?
if git apply $SRC/patch.diff 2>/tmp/cm-$P-$V.apply.log; then applied=true; else applied=false; fi
/venv/bin/python $SRC/demo.py >/tmp/cm-$P-$V.mut.log 2>&1; mut=$?
if $applied; then
  timeout 1800 /venv/bin/python -m pytest -q -p no:cacheprovider --timeout=900 $(cat /verif/harness/baseline_tests.txt | tr '\n' ' ') >/tmp/cm-$P-$V.tests.log 2>&1
  tests=$(grep -aoE "[0-9]+ passed" /tmp/cm-$P-$V.tests.log | tail -1); failed=$(grep -aoE "[0-9]+ failed" /tmp/cm-$P-$V.tests.log | tail -1)
else tests="not run"; failed=""; fi
cd /; git -C /repo worktree remove --force $WT; git -C /repo worktree prune
printf '{"property":"%s","variant":"%s","applied":%s,"demo_exit_clean":%s,"demo_exit_mutated":%s,"baseline":"%s %s","base":"%s"}\n' $P $V $applied $clean $mut "$tests" "$failed" "$(git -C /repo rev-parse --short HEAD)" > $SRC/confirm.json
cat $SRC/confirm.json
