#!/bin/sh
# try_seed.sh <patch.diff> <prop> [<prop>...]: apply a seeded change to /repo, run the quick checks, undo it straight afterwards.
PATCH=$1; shift
cd /repo || exit 2
git diff --quiet || { echo "/repo working tree not clean"; exit 2; }
git apply "$PATCH" || { echo "patch does not apply"; exit 2; }
trap 'git -C /repo checkout -- . ' EXIT
cd /verif
for p in "$@"; do
  out=$(./check $p --tier ${TIER:-quick} 2>&1); rc=$?
  echo "== $p exit=$rc $(echo "$out" | grep -c '^VIOLATION') violations; $(echo "$out" | grep 'signature' | sort | uniq -c | head -4 | tr '\n' ';')"
  [ $rc -eq 2 ] && echo "$out" | tail -5
done
