#!/usr/bin/env python3
"""keep_seed.py <prop> <variant> <detected_by csv or -> [needs...]: copy a confirmed seeded change into /verif/seeded/<prop><variant>/."""
import json, os, shutil, sys
prop, var, det = sys.argv[1:4]
needs = " ".join(sys.argv[4:])
src = "/root/seed-candidates/%s/%s" % (prop, var)
dst = "/verif/seeded/%s%s" % (prop, var)
os.makedirs(dst, exist_ok=True)
for f in ("patch.diff", "demo.py", "notes.md"):
    if os.path.exists(os.path.join(src, f)):
        shutil.copy(os.path.join(src, f), dst)
conf = json.load(open(os.path.join(src, "confirm.json"))) if os.path.exists(os.path.join(src, "confirm.json")) else {}
meta = dict(property=prop, variant=var, breaks=prop, needs_to_manifest=needs or "see notes.md",
            confirmed=dict(how="tools/confirm_seed.sh in a scratch worktree of /repo HEAD: patch applies, demo exit 0 without / 1 with, baseline 76 tests with the change", result=conf),
            detected_by_quick_checks=[] if det == "-" else det.split(","), source="independent sub-agent given only the property text")
json.dump(meta, open(os.path.join(dst, "meta.json"), "w"), indent=1)
print(dst, meta["detected_by_quick_checks"])
