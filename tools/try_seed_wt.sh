#!/bin/sh
# try_seed_wt.sh <patch.diff> <prop> [<prop>...]: like try_seed.sh but in the scratch worktree $WT (default /tmp/wt-me), leaving /repo alone.
WT=${WT:-/tmp/wt-me}
PATCH=$1; shift
cd $WT || exit 2
git diff --quiet || { echo "$WT working tree not clean"; exit 2; }
git apply "$PATCH" || { echo "patch does not apply"; exit 2; }
trap 'git -C $WT checkout -- . ' EXIT
cd ${VERIFDIR:-/verif}
for p in "$@"; do
  out=$(VERIF_REPO=$WT VERIF_EVIDENCE_DIR=/tmp/ev-scratch ./check $p --tier ${TIER:-quick} 2>&1); rc=$?
  echo "== $p exit=$rc $(echo "$out" | grep -c '^VIOLATION') violations; $(echo "$out" | grep 'signature' | sort | uniq -c | head -4 | tr '\n' ';')"
  [ $rc -eq 2 ] && echo "$out" | tail -5
done
