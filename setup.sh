#!/bin/sh
# Offline setup: verify the tool chain and parse every specification module. Nothing is fetched or built.
set -e
cd "$(dirname "$0")"
command -v tlc >/dev/null
/venv/bin/python -c "import sys; sys.path.insert(0,'/repo'); import atomica, xlsxwriter, sciris"
tmp=$(mktemp -d /tmp/verif-setup-XXXXXX)
trap 'rm -rf "$tmp"' EXIT
cp spec/*.tla "$tmp"/
/venv/bin/python -c "
import sys; sys.path.insert(0,'.')
from harness import worlds as W
open('$tmp/Worlds.tla','w').write(W.worlds_module(W.catalogue('quick')[:2]))
from harness import props_c07
open('$tmp/InitWorlds.tla','w').write(props_c07.worlds_module(False))
"
for f in "$tmp"/*.tla; do
  out=$(cd "$tmp" && tla-sany "$(basename "$f")" 2>&1) || { echo "$out"; echo "SANY failed on $f"; exit 1; }
  echo "$out" | grep -q "Semantic errors\|Parse Error\|Fatal errors" && { echo "$out"; echo "SANY errors in $f"; exit 1; }
done
echo "setup ok: $(ls spec/*.tla | wc -l) modules parsed"
