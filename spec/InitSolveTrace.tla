---- MODULE InitSolveTrace ----
(* Direction code -> spec for C07.                                                                              *)
(*  [id, kind |-> "init", outcome ("accepted" | "refused" | "error"), members, used, b, x]   x observed at index 0 *)
(*  [id, kind |-> "charac", val, num, den, hasden, isinf]     a reported characteristic value at some time index         *)
EXTENDS Rat, Big, TLC, Json, IOUtils, FiniteSets, FiniteSetsExt
Trace == JsonDeserialize(IOEnv.TRACE_FILE)
VARIABLES i, bad
BSum(S, f) == FoldSet(LAMBDA k, acc : SAdd(f[k], acc), SZero, S)
Tol6 == [s |-> 1, m |-> UAdd(UDrop(UMul(SOne.m, K1e6), 3), <<64>>)]       \* 1e-6 people (absolute) + slack
SeqSet(s) == {s[k] : k \in 1..Len(s)}
RowOK(e, r) == LET sum == SSumSeq([j \in 1..Len(e.members[r]) |-> e.x[e.members[r][j]]])      \* (with multiplicity)
                   b == e.b[r]
               IN SLe(SAbs(SSub(SMulInt(sum, b[2]), SFromInt(b[1]))), [s |-> 1, m |-> UMul(Tol6.m, UFromInt(b[2]))])
InitFailing(e) ==
     (IF e.outcome = "error" THEN {"DedicatedRefusal"} ELSE {})
\cup (IF e.outcome = "accepted" /\ \E k \in 1..Len(e.x) : ~SNonNeg(e.x[k]) THEN {"NonNegative"} ELSE {})
\cup (IF e.outcome = "accepted" /\ \E r \in 1..Len(e.b) : e.used[r] /\ ~RowOK(e, r) THEN {"MatchesDatabook"} ELSE {})
\* charac * den = num   (num < 1e-6 people => reported as 0)
CharacFailing(e) ==
   IF e.isinf THEN (IF e.hasden /\ e.den.s = 0 /\ ~SLt(e.num, Tol6) THEN {} ELSE {"CharacInfinite"})      \* x/0 with x > 0
   ELSE IF e.hasden /\ e.den.s = 0 /\ ~SLt(e.num, Tol6) THEN {"CharacInfinite"}
   ELSE IF SLt(e.num, Tol6) /\ e.hasden THEN (IF e.val.s = 0 \/ SLe(SAbs(e.val), Tol6) THEN {} ELSE {"CharacZeroRule"})
   ELSE IF ~e.hasden THEN (IF SClose(e.val, e.num, K1e9, 64) THEN {} ELSE {"CharacSum"})
   ELSE LET lhs == SMul(e.val, e.den)  rhs == SMul(e.num, SOne)
        IN IF SLe(SAbs(SSub(lhs, rhs)), [s |-> 1, m |-> UAdd(UDrop(UMul(SMax(SAbs(lhs), SAbs(rhs)).m, K1e9), 3), UAdd(UAdd(e.val.m, e.den.m), UAdd(e.num.m, SOne.m)))]) THEN {} ELSE {"CharacRatio"}
Failing(e) == IF e.kind = "init" THEN InitFailing(e) ELSE CharacFailing(e)
Init == i = 1 /\ bad = {}
Next == /\ i <= Len(Trace)
        /\ bad' = IF Cardinality(bad) > 60 THEN bad ELSE bad \cup {<<Trace[i].id, c>> : c \in Failing(Trace[i])}
        /\ i' = i + 1
Spec == Init /\ [][Next]_<<i, bad>>
Verdict == i > Len(Trace) => bad = {}
Consumed == TLCGet("stats").diameter - 1 = Len(Trace)
====
