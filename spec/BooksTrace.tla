---- MODULE BooksTrace ----
(* Direction code -> spec for C16.                                                                                      *)
(*  [id, kind |-> "content", want, got]        visible content after an operation: expected (spec) vs projected (real), as   *)
(*                                             sequences of strings (sorted by the harness); compared as sets                 *)
(*  [id, kind |-> "same", a, b]                two digests that must be equal (round trip content, second round trip, binary)  *)
(*  [id, kind |-> "close", a, b]               numbers that must agree to 1e-9 (paired simulations) - limb encoded              *)
EXTENDS Big, Integers, Sequences, TLC, Json, IOUtils, FiniteSets
Trace == ndJsonDeserialize(IOEnv.TRACE_FILE)
VARIABLES i, bad
SeqSet(s) == {s[k] : k \in 1..Len(s)}
Failing(e) ==
   IF e.kind = "content" THEN (IF SeqSet(e.want) = SeqSet(e.got) THEN {} ELSE {"Content"})
   ELSE IF e.kind = "same" THEN (IF e.a = e.b THEN {} ELSE {"RoundTrip"})
   ELSE (IF Len(e.a) = Len(e.b) /\ \A k \in 1..Len(e.a) : SClose(e.a[k], e.b[k], K1e9, 8) THEN {} ELSE {"Behaviour"})
Init == i = 1 /\ bad = {}
Next == /\ i <= Len(Trace)
        /\ bad' = IF Cardinality(bad) > 60 THEN bad ELSE bad \cup {<<Trace[i].id, c>> : c \in Failing(Trace[i])}
        /\ i' = i + 1
Spec == Init /\ [][Next]_<<i, bad>>
Verdict == i > Len(Trace) => bad = {}
Consumed == TLCGet("stats").diameter - 1 = Len(Trace)
====
