---- MODULE ProgStep ----
(***************************************************************************************************)
(* C13: while programs are active every targeted parameter takes exactly the value the program set  *)
(* implies at the coverage prevailing in that step, and the reports of the finished result are the   *)
(* values that were in force.  One step of Model.update_pars for one program-targeted parameter:     *)
(*   eligible_k  = sum of the targeted compartments at this time index                               *)
(*   coverage_k  = Coverage(capacity_k[ti], eligible_k)      (module Coverage, C11)                   *)
(*   outcome     = Covout(coverage)                          (module Covout, C12)                     *)
(*   value       = Clip( outcome * source_popsize / dt   for number parameters,                       *)
(*                       outcome / dt                    for probability and rate parameters,         *)
(*                       outcome                         otherwise )                                  *)
(* and the gate: programs act only at times start_year <= t <= stop_year.  The small state machine   *)
(* below is the per-parameter life cycle over the time grid; ProgStepTrace.tla evaluates the relation *)
(* on every active step of recorded runs, and compares the post-hoc reports with what was in force.   *)
(***************************************************************************************************)
EXTENDS Rat, TLC
CONSTANTS Units, Outcomes, PopSizes, Dts, Limits, NSteps, StartIdx, StopIdx
VARIABLES ti, val, active
vars == <<ti, val, active>>
Convert(u, o, n, dt) == IF u = "number" THEN RDiv(RMul(o, n), dt) ELSE IF u \in {"probability", "rate"} THEN RDiv(o, dt) ELSE o
Clip(v, lim) == RMin(RMax(v, lim[1]), lim[2])
DataValue == <<7, 10>>                        \* the non-program value of the parameter (data driven, constant here)
Init == ti = 0 /\ val = DataValue /\ active = FALSE
Step == /\ ti < NSteps
        /\ LET on == StartIdx <= ti + 1 /\ ti + 1 <= StopIdx IN
           /\ active' = on
           /\ IF on THEN \E u \in Units, o \in Outcomes, n \in PopSizes, dt \in Dts, lim \in Limits : val' = Clip(Convert(u, o, n, dt), lim)
                    ELSE val' = DataValue
        /\ ti' = ti + 1
Spec == Init /\ [][Step]_vars
\* after the stop year (and before the start year) a data-driven targeted parameter has its non-program value again
GateOK == ~active => val = DataValue
InLimits == active => \E lim \in Limits : RLe(lim[1], val) /\ RLe(val, lim[2])
====
