---- MODULE CoverageTrace ----
(* Direction code -> spec for C11: capacities and coverages returned by the real Program / ProgramSet for every case. *)
(* case record:  [id, kind |-> "case", cap, cov (or None), upper, sat, elig, ocap, ocov, odirect, hasdirect]            *)
(* pair record:  [id, kind |-> "mono", lo, hi]   observed coverages with spending raised / unit cost lowered             *)
(*               [id, kind |-> "dt", cap1, dt1, cap2, dt2]   one-off capacity per year independent of the step           *)
EXTENDS Rat, Big, TLC, Json, IOUtils, FiniteSets
Trace == JsonDeserialize(IOEnv.TRACE_FILE)
VARIABLES i, bad
None == <<-1, 1>>
CovClauses(e, o, tag) ==
     (IF e.cov # None /\ ~RatClose(e.cov, o, K1e9, 8) THEN {"CovExpect" \o tag} ELSE {})
\cup (IF SNonNeg(o) /\ SLe(o, SAdd(SOne, Tol(SOne, K1e9, 8))) THEN {} ELSE {"Bounded" \o tag})
\cup (IF FixLeRat(o, e.upper, K1e9, 8) THEN {} ELSE {"Upper" \o tag})
CaseFailing(e) ==
     (IF RatClose(e.cap, e.ocap, K1e9, 8) THEN {} ELSE {"CapExpect"})
\cup CovClauses(e, e.ocov, "")
\cup (IF e.hasdirect THEN CovClauses(e, e.odirect, "Direct") ELSE {})
MonoFailing(e) == IF SLe(e.lo, SAdd(e.hi, Tol(e.hi, K1e9, 8))) THEN {} ELSE {"Monotone"}
\* cap1 / dt1 = cap2 / dt2   <=>   cap1 * dt2 = cap2 * dt1   (dt rational, cap observed)
DtFailing(e) == LET a == SMulInt(SMulInt(e.cap1, e.dt2[1]), e.dt1[2])
                    b == SMulInt(SMulInt(e.cap2, e.dt1[1]), e.dt2[2])
                IN IF SLe(SAbs(SSub(a, b)), [s |-> 1, m |-> UAdd(UDrop(UMul(SMax(SAbs(a), SAbs(b)).m, K1e9), 3), UFromInt(64 * e.dt1[2] * e.dt2[2]))]) THEN {} ELSE {"DtIndependent"}
Failing(e) == IF e.kind = "case" THEN CaseFailing(e) ELSE IF e.kind = "mono" THEN MonoFailing(e) ELSE DtFailing(e)
Init == i = 1 /\ bad = {}
Next == /\ i <= Len(Trace)
        /\ bad' = IF Cardinality(bad) > 30 THEN bad ELSE bad \cup {<<Trace[i].id, c>> : c \in Failing(Trace[i])}
        /\ i' = i + 1
Spec == Init /\ [][Next]_<<i, bad>>
Verdict == i > Len(Trace) => bad = {}
Consumed == TLCGet("stats").diameter - 1 = Len(Trace)
====
