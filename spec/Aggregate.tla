---- MODULE Aggregate ----
(***************************************************************************************************)
(* C20: reported aggregates depend only on what was asked for, and add up.                          *)
(* A request to PlotData is a sequence of output items and a sequence of population items with two  *)
(* aggregation options.  An output item is a plain quantity or a named aggregation of quantities    *)
(* (or a formula); a population item is a plain population or a named aggregation of populations.   *)
(* The method used for an item is the explicit option, or else the default chosen *for that item*   *)
(* from its units: quantities in fraction-like units are averaged, everything else is summed.       *)
(* Hence the value of (output item, population item) is a function of the item pair and the         *)
(* options only - not of the other items of the request nor of their order.  TLC enumerates the     *)
(* requests and emits, for every series of every request, the methods that must have been used;     *)
(* AggregateTrace.tla compares what PlotData returned with the same item requested alone, and       *)
(* checks the arithmetic of the aggregates against their parts.                                      *)
(***************************************************************************************************)
EXTENDS Integers, Sequences, FiniteSets, TLC, Json
CONSTANTS OutItems,    \* records [name, kind ("plain" | "agg" | "formula"), labels (sequence of quantity names), units ("number" | "fraction")]
          PopItems,    \* records [name, kind ("plain" | "agg"), labels]
          Options,     \* set of <<output_aggregation, pop_aggregation>>, "none" = not given
          MaxOut, MaxPop
VARIABLES req, obs
vars == <<req, obs>>
RECURSIVE SeqsUpTo(_, _)
SeqsUpTo(S, n) == IF n = 0 THEN {<<>>} ELSE LET shorter == SeqsUpTo(S, n - 1) IN shorter \cup {Append(s, x) : s \in {t \in shorter : Len(t) = n - 1}, x \in S}
Distinct(s) == \A a, b \in 1..Len(s) : a # b => s[a] # s[b]
Default(units) == IF units = "fraction" THEN "average" ELSE "sum"
\* units of an aggregated output: those of its first label (a formula has unknown units, which are summed)
OutMethod(o, opt) == IF o.kind # "agg" THEN "n/a" ELSE IF opt[1] # "none" THEN opt[1] ELSE Default(o.units)
PopMethod(p, o, opt) == IF p.kind # "agg" THEN "n/a" ELSE IF opt[2] # "none" THEN opt[2] ELSE Default(IF o.kind = "formula" THEN "number" ELSE o.units)
Init == req = <<>> /\ obs = ""
Pick == /\ req = <<>>
        /\ \E os \in {s \in SeqsUpTo(OutItems, MaxOut) : Len(s) >= 1 /\ Distinct(s)},
              ps \in {s \in SeqsUpTo(PopItems, MaxPop) : Len(s) >= 1 /\ Distinct(s)}, opt \in Options :
              /\ req' = <<os, ps, opt>>
              /\ obs' = ToJson([outputs |-> [k \in 1..Len(os) |-> os[k].name], pops |-> [k \in 1..Len(ps) |-> ps[k].name], opt |-> opt,
                                series |-> {[pop |-> p.name, output |-> o.name, omethod |-> OutMethod(o, opt), pmethod |-> PopMethod(p, o, opt)] :
                                            o \in {os[k] : k \in 1..Len(os)}, p \in {ps[k] : k \in 1..Len(ps)}}])
Spec == Init /\ [][Pick]_vars
\* the theorem behind "depends only on what was asked": the methods of an item pair do not depend on the rest of the request
ItemLocal == req # <<>> => \A o \in OutItems, p \in PopItems :
                 OutMethod(o, req[3]) \in {"n/a", "sum", "average", "weighted"} /\ PopMethod(p, o, req[3]) \in {"n/a", "sum", "average", "weighted"}
====
