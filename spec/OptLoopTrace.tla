---- MODULE OptLoopTrace ----
(* Direction code -> spec for C15: one record per real run of calibrate / optimize / run_optimization.           *)
(* [id, outcome ("returned" | "aborted"), before, after (digest strings of the caller's objects, sim_end incl.), *)
(*  t0, t1 (objective terms at the starting point / at the returned point, already weighted and signed),        *)
(*  vals, lows, highs (adjusted values and their bounds), total0, total1, hastotal,                              *)
(*  haslib, lib0, lib1 (the objective the library itself evaluates at the starting / returned point),            *)
(*  hard |-> << <<met0, met1>> >> (each hard target, judged independently from the documented meaning:          *)
(*  at least / at most a threshold, increase / decrease by an absolute or fractional amount relative to the      *)
(*  baseline instructions; summed over t == t0 or t0 <= t < t1), at the starting and at the returned point]      *)
EXTENDS Big, Integers, Sequences, TLC, Json, IOUtils, FiniteSets
Trace == JsonDeserialize(IOEnv.TRACE_FILE)
VARIABLES i, bad
Obj(terms) == SSumSeq(terms)
Failing(e) ==
     (IF e.before = e.after THEN {} ELSE {"Restored"})
\cup (IF e.outcome \in {"returned", "aborted"} THEN {} ELSE {"UnknownOutcome"})     \* (the verdict is total: a record that is neither is not silently exempt from the clauses below)
\cup (IF e.outcome = "returned" /\ ~SLe(Obj(e.t1), SAdd(Obj(e.t0), Tol(Obj(e.t0), K1e9, 64 + Len(e.t0)))) THEN {"NoWorse"} ELSE {})
\cup (IF e.outcome = "returned" /\ \E j \in 1..Len(e.vals) : ~(SLe(e.lows[j], SAdd(e.vals[j], Tol(e.vals[j], K1e9, 8))) /\ (e.highs[j].s < 0 \/ SLe(e.vals[j], SAdd(e.highs[j], Tol(e.highs[j], K1e9, 8))))) THEN {"InBounds"} ELSE {})
\cup (IF e.outcome = "returned" /\ e.hastotal /\ ~SClose(e.total1, e.total0, K1e6, 64) THEN {"HardTargetKept"} ELSE {})
\cup (IF e.outcome = "returned" /\ \E j \in 1..Len(e.hard) : e.hard[j][1] /\ ~e.hard[j][2] THEN {"HardTargetMet"} ELSE {})
\* the objective that is optimised is the documented sum (finite part: hard targets contribute 0 when met)
\cup (IF e.outcome = "returned" /\ e.haslib /\ ~(SClose(e.lib0, Obj(e.t0), K1e9, 64 + Len(e.t0)) /\ SClose(e.lib1, Obj(e.t1), K1e9, 64 + Len(e.t1))) THEN {"ObjectiveDefinition"} ELSE {})
Init == i = 1 /\ bad = {}
Next == /\ i <= Len(Trace)
        /\ bad' = IF Cardinality(bad) > 60 THEN bad ELSE bad \cup {<<Trace[i].id, c>> : c \in Failing(Trace[i])}
        /\ i' = i + 1
Spec == Init /\ [][Next]_<<i, bad>>
Verdict == i > Len(Trace) => bad = {}
Consumed == TLCGet("stats").diameter - 1 = Len(Trace)
====
