SPECIFICATION Spec
CONSTANTS
 DataPatterns <- MCData
 Factors <- MCFactors
 Limits <- MCLimits
 Programs <- MCPrograms
 Scenarios <- MCScenarios
 K = 7
 Dt <- MCDt
INVARIANT InLimits
INVARIANT FollowsProgram
INVARIANT DataExact
CHECK_DEADLOCK FALSE
