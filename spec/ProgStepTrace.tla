---- MODULE ProgStepTrace ----
(* Direction code -> spec for C13 (one record per checked relation, values limb encoded):                             *)
(*  [id, kind |-> "value", units, outcome, popsize, dt, lo, hi, haslo, hashi, val]   targeted parameter in an active step *)
(*  [id, kind |-> "same", a, b]     report vs value in force / paired run vs run (exact)                                   *)
(*  [id, kind |-> "cov", cov, cap, elig]   unsaturated coverage: 1 if elig <= cap else cap / elig                           *)
(*  [id, kind |-> "sum", total, parts]     eligible = sum of the targeted compartments                                       *)
(*  [id, kind |-> "le", a, b]              coverage in force <= saturation level in force at that time                         *)
(*  [id, kind |-> "close", a, b]           report computed back from the coverage vs the spending in force (relative 1e-8)            *)
(*  [id, kind |-> "deriv", x0, x1, outcome, dt, lo, hi, haslo, hashi]   derivative parameter: x1 = clip(x0 + outcome * dt)      *)
EXTENDS Big, Integers, Sequences, TLC, Json, IOUtils, FiniteSets
Trace == ndJsonDeserialize(IOEnv.TRACE_FILE)
VARIABLES i, bad
PSlack(x, y) == UAdd(UAdd(x.m, y.m), <<64>>)
RelClose(a, b, Kc, slack) == SLe(SAbs(SSub(a,b)), [s |-> 1, m |-> UAdd(UDrop(UMul(SMax(SAbs(a), SAbs(b)).m, Kc), 3), slack)])
\* expected pre-clip value x with  x * dt = outcome * popsize (number),  x * dt = outcome (probability, rate),  x = outcome
ValueOK(e) ==
   LET clippedLo == e.haslo /\ SClose(e.val, e.lo, K1e9, 8)
       clippedHi == e.hashi /\ SClose(e.val, e.hi, K1e9, 8)
       lhs == IF e.units \in {"number", "probability", "rate"} THEN SMul(e.val, e.dt) ELSE SMul(e.val, SOne)
       rhs == IF e.units = "number" THEN SMul(e.outcome, e.popsize) ELSE SMul(e.outcome, SOne)
       unclipped == RelClose(lhs, rhs, K1e9, UAdd(PSlack(e.val, e.dt), PSlack(e.outcome, e.popsize)))
       \* when clipped, the unclipped value lies beyond the limit:  rhs <= lo * dt  resp.  rhs >= hi * dt
       beyondLo == SLe(rhs, SAdd(SMul(e.lo, IF e.units \in {"number", "probability", "rate"} THEN e.dt ELSE SOne), Tol(rhs, K1e9, 64)))
       beyondHi == SLe(SMul(e.hi, IF e.units \in {"number", "probability", "rate"} THEN e.dt ELSE SOne), SAdd(rhs, Tol(rhs, K1e9, 64)))
       inside == (~e.haslo \/ SLe(e.lo, SAdd(e.val, Tol(e.val, K1e9, 8)))) /\ (~e.hashi \/ SLe(e.val, SAdd(e.hi, Tol(e.hi, K1e9, 8))))
   IN inside /\ (unclipped \/ (clippedLo /\ beyondLo) \/ (clippedHi /\ beyondHi))
CovOK(e) == IF SLe(e.elig, e.cap) THEN SClose(e.cov, SOne, K1e9, 8) ELSE RelClose(SMul(e.cov, e.elig), SMul(e.cap, SOne), K1e9, PSlack(e.cov, e.elig))
\* a derivative parameter: the program outcome is its rate of change per year, the value moves by outcome * dt per step and is clipped
DerivOK(e) == LET raw == SAdd(e.x0, SRescale(SMul(e.outcome, e.dt)))
                  want == IF e.haslo /\ SLe(raw, e.lo) THEN e.lo ELSE IF e.hashi /\ SLe(e.hi, raw) THEN e.hi ELSE raw
              IN SClose(e.x1, want, K1e9, 8)
Failing(e) ==
   IF e.kind = "value" THEN (IF ValueOK(e) THEN {} ELSE {"ProgValue"})
   ELSE IF e.kind = "same" THEN (IF e.a = e.b THEN {} ELSE {"Mismatch"})
   ELSE IF e.kind = "cov" THEN (IF CovOK(e) THEN {} ELSE {"Coverage"})
   ELSE IF e.kind = "close" THEN (IF SClose(e.a, e.b, K1e8, 64) THEN {} ELSE {"Mismatch"})       \* a derived report (inverse of the coverage function) vs the value in force
   ELSE IF e.kind = "deriv" THEN (IF DerivOK(e) THEN {} ELSE {"Derivative"})
   ELSE IF e.kind = "le" THEN (IF SLe(e.a, SAdd(e.b, Tol(e.b, K1e9, 8))) THEN {} ELSE {"Saturation"})      \* coverage in force never exceeds the saturation level of that year
   ELSE (IF SClose(e.total, SSumSeq(e.parts), K1e9, 8 + Len(e.parts)) THEN {} ELSE {"Eligible"})
Init == i = 1 /\ bad = {}
Next == /\ i <= Len(Trace)
        /\ bad' = IF Cardinality(bad) > 60 THEN bad ELSE bad \cup {<<Trace[i].id, c>> : c \in Failing(Trace[i])}
        /\ i' = i + 1
Spec == Init /\ [][Next]_<<i, bad>>
Verdict == i > Len(Trace) => bad = {}
Consumed == TLCGet("stats").diameter - 1 = Len(Trace)
====
