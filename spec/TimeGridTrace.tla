---- MODULE TimeGridTrace ----
(* Direction code -> spec for the time grid: every vector produced by ProjectSettings(start,end,dt).tvec *)
(* must be a behaviour of TimeGrid: right length, every point equal to start + k*dt (rtol 1e-9).         *)
EXTENDS Rat, Big, TLC, Json, IOUtils
Trace == JsonDeserialize(IOEnv.TRACE_FILE)
VARIABLES i, bad
NSteps(start, end, dt) == IMax(0, RCeil(RDiv(RSub(end, start), dt)))
T(start, dt, k) == RAdd(start, RMul(RInt(k), dt))
OnGrid(start, end, dt) == LET x == RDiv(RSub(end, start), dt) IN x[2] = 1
RECURSIVE IsPow2(_)
IsPow2(n) == n = 1 \/ (n % 2 = 0 /\ IsPow2(n \div 2))
Exact(start, end, dt) == IsPow2(start[2]) /\ IsPow2(end[2]) /\ IsPow2(dt[2])
Allowed(start, end, dt) == LET n == NSteps(start, end, dt) IN
      IF OnGrid(start, end, dt) /\ ~Exact(start, end, dt) THEN {n, n+1} ELSE {n}

LenOK(e) == (e.len - 1) \in Allowed(e.start, e.end, e.dt)
PointsOK(e) == \A k \in 1..e.len : RatClose(T(e.start, e.dt, k-1), e.tv[k], K1e9, 4)
\* re-assigning the end year the settings already hold (e.len2, e.end2: grid length and end year afterwards) changes nothing
FixpointOK(e) == e.len2 = e.len /\ e.end2 = e.end1
Failing(e) == (IF LenOK(e) THEN {} ELSE {"GridLen"}) \cup (IF PointsOK(e) THEN {} ELSE {"GridPoints"}) \cup (IF FixpointOK(e) THEN {} ELSE {"GridFixpoint"})

Init == i = 1 /\ bad = {}
Next == /\ i <= Len(Trace)
        /\ bad' = bad \cup {<<Trace[i].id, c>> : c \in Failing(Trace[i])}
        /\ i' = i + 1
Spec == Init /\ [][Next]_<<i, bad>>
Verdict == i > Len(Trace) => bad = {}
Consumed == TLCGet("stats").diameter - 1 = Len(Trace)
====
