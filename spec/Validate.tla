---- MODULE Validate ----
(***************************************************************************************************)
(* C18: input files are accepted and runnable, or rejected with the dedicated error.                *)
(* An abstract framework file: compartments with flags, parameters with units / function            *)
(* dependencies / called functions, transitions, characteristics, a cascade, and the set of sheets  *)
(* and columns present.  The documented rules are named predicates; Valid is their conjunction.     *)
(* A mutation catalogue turns a valid base file into a file that breaks exactly one rule (or none):  *)
(* TLC checks that the verdict stated in the catalogue agrees with the rules                         *)
(*      Valid(Mutate(base, m))  <=>  Verdict(m) = "accept"                                           *)
(* for every base variant and mutation, and emits the pairs; the harness writes each as a real       *)
(* spreadsheet and ValidateTrace.tla judges what the library did with it.                             *)
(* A program book is a third file layered on a valid framework and databook: programs, the           *)
(* populations / compartments they target, effect rows (parameter, population, programs with an      *)
(* outcome, programs named in interaction outcomes); its rules are ValidPB.                           *)
(***************************************************************************************************)
EXTENDS Integers, Sequences, FiniteSets, TLC, Json
CONSTANTS Bases, Mutations
VARIABLES bi, mut, obs
vars == <<bi, mut, obs>>
GenericMutations == {"g_none", "g_undefined_parameter_in_transition", "g_undefined_compartment_in_transition", "g_duplicate_code_name", "g_duplicate_display_name", "g_reserved_name",
                     "g_self_reference", "g_unsupported_call", "g_undefined_dependency", "g_delete_parameters_sheet", "g_delete_format_column", "g_add_output_parameter"}
Listed == {"max", "min", "exp", "floor", "sqrt", "ln", "cos", "sin", "sdiv"}
Reserved == {"t", "flow", "all", "dt", "total"}
RequiredSheets == {"parameters"}     \* the only sheet the library insists on (a framework without transitions is an output-only model)
RequiredColumns == {"compartments.code name", "compartments.display name", "parameters.code name", "parameters.display name", "parameters.format"}

\* ---- the documented rules ----
Names(f) == {c.name : c \in f.comps} \cup {p.name : p \in f.pars} \cup {c.name : c \in f.characs}
CodeNamesUnique(f) == /\ Cardinality(f.comps) + Cardinality(f.pars) + Cardinality(f.characs) = Cardinality(Names(f)) + f.dupcodes
DisplayNamesUnique(f) == f.dupdisplay = 0
NoReserved(f) == Names(f) \cap Reserved = {}
Kind(f, n) == (CHOOSE c \in f.comps : c.name = n).kind
Units(f, n) == (CHOOSE p \in f.pars : p.name = n).units
\* (a transition <<from, to, ">">> is the parameter-less residual outflow of a junction)
RefsDefined(f) == /\ \A t \in f.trans : t[1] \in {c.name : c \in f.comps} /\ t[2] \in {c.name : c \in f.comps} /\ t[3] \in ({p.name : p \in f.pars} \cup {">"})
                  /\ \A c \in f.characs : c.parts \subseteq ({x.name : x \in f.comps} \cup {x.name : x \in f.characs}) /\ (c.denom = "" \/ c.denom \in Names(f))
                  /\ \A p \in f.pars : p.deps \subseteq (Names(f) \cup {"t", "dt"} \cup f.extranames)
\* characteristics may include characteristics but not, directly or indirectly, themselves; junctions may feed junctions but not in a cycle
RECURSIVE CReach(_,_,_)
CReach(f, S, n) == IF n = 0 THEN S ELSE CReach(f, S \cup UNION {c.parts : c \in {d \in f.characs : d.name \in S}}, n - 1)
CharacsAcyclic(f) == \A c \in f.characs : c.name \notin CReach(f, c.parts, Cardinality(f.characs))
JNext(f, S) == {t[2] : t \in {u \in f.trans : u[1] \in S /\ u[2] \in {c.name : c \in f.comps} /\ Kind(f, u[2]) = "junction"}}
RECURSIVE JReach(_,_,_)
JReach(f, S, n) == IF n = 0 THEN S ELSE JReach(f, S \cup JNext(f, S), n - 1)
Junctions(f) == {c.name : c \in {d \in f.comps : d.kind = "junction"}}
JunctionsAcyclic(f) == \A j \in Junctions(f) : j \notin JReach(f, JNext(f, {j}), Cardinality(f.comps))
ResidualOK(f) == \A t \in f.trans : t[3] = ">" => (t[1] \in {c.name : c \in f.comps} => Kind(f, t[1]) = "junction") /\ Cardinality({u \in f.trans : u[3] = ">" /\ u[1] = t[1]}) = 1
LinkUnits(f) == \A t \in f.trans : (t[1] \in {c.name : c \in f.comps} /\ t[3] \in {p.name : p \in f.pars}) =>
                  /\ (Kind(f, t[1]) = "junction" <=> Units(f, t[3]) = "proportion")
                  /\ (Kind(f, t[1]) = "source" => Units(f, t[3]) = "number")
                  /\ Kind(f, t[1]) # "sink"
                  /\ (t[2] \in {c.name : c \in f.comps} => Kind(f, t[2]) # "source")
RECURSIVE Reach(_,_,_)
Reach(f, S, n) == IF n = 0 THEN S ELSE Reach(f, S \cup UNION {p.deps : p \in {q \in f.pars : q.name \in S}}, n - 1)
NoCycles(f) == \A p \in f.pars : p.name \notin Reach(f, p.deps, Cardinality(f.pars))
CallsListed(f) == \A p \in f.pars : p.calls \subseteq Listed
CascadeNested(f) == \A k \in 1..(Len(f.cascade) - 1) : f.cascade[k+1] \subseteq f.cascade[k]
Complete(f) == RequiredSheets \subseteq f.sheets /\ RequiredColumns \subseteq f.columns
DataComplete(f) == f.datadefects = {}           \* the databook holds every required table, value, population and the framework's units
\* ---- timed transitions (duration groups): f.timed is the set of parameters marked as driving a timed outflow ----
TimedOf(f) == IF "timed" \in DOMAIN f THEN f.timed ELSE {}
CompNames(f) == {c.name : c \in f.comps}
TimedOut(f, c) == {t[3] : t \in {u \in f.trans : u[1] = c /\ u[3] \in TimedOf(f)}}
GroupOf(f, c) == IF TimedOut(f, c) = {} THEN "" ELSE CHOOSE p \in TimedOut(f, c) : TRUE       \* the duration group of a compartment is named after its timed outflow
TimedFormat(f) == \A p \in f.pars : p.name \in TimedOf(f) => p.units = "duration" /\ p.name \notin f.targetable
TimedOutflows(f) == \A c \in f.comps : Cardinality(TimedOut(f, c.name)) <= 1 /\ (TimedOut(f, c.name) # {} => c.kind = "normal")
NoFlushIntoOwnGroup(f) == \A t \in f.trans : (t[3] \in TimedOf(f) /\ t[2] \in CompNames(f)) => GroupOf(f, t[2]) # t[3]      \* whatever the order of the rows
\* the ordinary compartments that feed junction j directly or through other junctions (with the parameter of the link leaving them), and those it feeds
RECURSIVE JUp(_,_,_)
JUp(f, J, n) == IF n = 0 THEN J ELSE JUp(f, J \cup {t[1] : t \in {u \in f.trans : u[2] \in J /\ u[1] \in Junctions(f)}}, n - 1)
RECURSIVE JDown(_,_,_)
JDown(f, J, n) == IF n = 0 THEN J ELSE JDown(f, J \cup {t[2] : t \in {u \in f.trans : u[1] \in J /\ u[2] \in Junctions(f)}}, n - 1)
Feeders(f, j) == {<<t[1], t[3]>> : t \in {u \in f.trans : u[2] \in JUp(f, {j}, Cardinality(f.comps)) /\ u[1] \in CompNames(f) \ Junctions(f)}}
Fed(f, j) == {t[2] : t \in {u \in f.trans : u[1] \in JDown(f, {j}, Cardinality(f.comps)) /\ u[2] \in CompNames(f) \ Junctions(f)}}
UpGroups(f, j) == {GroupOf(f, x[1]) : x \in Feeders(f, j)} \ {""}
UpAttach(f, j) == {GroupOf(f, x[1]) : x \in {y \in Feeders(f, j) : y[2] \notin TimedOf(f)}} \ {""}       \* groups whose elapsed time is carried into j (ordinary links, not the flush)
DownGroups(f, j) == {GroupOf(f, c) : c \in Fed(f, j)} \ {""}
\* a junction that carries elapsed time from a group back into that group belongs to the group: then all its inputs are duration-preserving links
\* from that group and no other group is downstream; any other junction must not connect a group with itself
JunctionTimed(f) == \A j \in Junctions(f) :
   IF UpAttach(f, j) \cap DownGroups(f, j) # {}
   THEN \E g \in UpAttach(f, j) : (\A x \in Feeders(f, j) : GroupOf(f, x[1]) = g /\ x[2] \notin TimedOf(f)) /\ DownGroups(f, j) = {g}
   ELSE UpGroups(f, j) \cap DownGroups(f, j) = {}
TimedOK(f) == TimedFormat(f) /\ TimedOutflows(f) /\ NoFlushIntoOwnGroup(f) /\ JunctionTimed(f)
\* ---- program book rules ----
PBRefs(f) == /\ f.pb.tpops \subseteq f.datapops /\ f.pb.tcomps \subseteq {c.name : c \in f.comps}
             /\ f.pb.epars \subseteq f.targetable /\ f.pb.epops \subseteq f.datapops
             /\ f.pb.eprogs \subseteq f.pb.progs /\ f.pb.iprogs \subseteq f.pb.eprogs
PBUnique(f) == f.pb.dupprogs = 0 /\ "all" \notin f.pb.progs
PBTargets(f) == f.pb.untargeted = {}            \* every program targets at least one population and one compartment
PBComplete(f) == f.pb.defects = {}              \* unit cost and spending for every program, a baseline wherever outcomes are given, one currency, a known coverage interaction, all sheets
ValidPB(f) == PBRefs(f) /\ PBUnique(f) /\ PBTargets(f) /\ PBComplete(f)
Valid(f) == TimedOK(f) /\ CharacsAcyclic(f) /\ JunctionsAcyclic(f) /\ ResidualOK(f) /\ ValidPB(f) /\ DataComplete(f) /\ CodeNamesUnique(f) /\ DisplayNamesUnique(f) /\ NoReserved(f) /\ RefsDefined(f) /\ LinkUnits(f) /\ NoCycles(f) /\ CallsListed(f) /\ CascadeNested(f) /\ Complete(f)

\* ---- mutations (each keeps everything else of the file) ----
Par(n, u, d, c) == [name |-> n, units |-> u, deps |-> d, calls |-> c]
\* a second compartment rcv2 in the duration group of rcv (same timed outflow parameter); a junction jt inside the group: rcv -mv-> jt -one-> rcv2
TGroup2(f) == [f EXCEPT !.comps = @ \cup {[name |-> "rcv2", kind |-> "normal"]}, !.trans = @ \cup {<<"rcv2", "sus", "wane">>, <<"rcv2", "dead", "mort">>}]
TJunction(f) == [TGroup2(f) EXCEPT !.comps = @ \cup {[name |-> "jt", kind |-> "junction"]}, !.pars = @ \cup {Par("mv", "rate", {}, {}), Par("one", "proportion", {}, {})},
                                   !.trans = @ \cup {<<"rcv", "jt", "mv">>, <<"jt", "rcv2", "one">>}]
TimedMutations == {"t_none", "t_timed_rate", "t_timed_targetable", "t_two_timed_outflows", "t_timed_from_junction", "t_timed_from_source", "t_group_two_comps", "t_flush_into_own_group_a",
                   "t_flush_into_own_group_b", "t_junction_in_group", "t_junction_mixed_inflows", "t_junction_mixed_outflows", "t_junction_flush_back", "t_junction_flush_out"}
Mutate(f, m) ==
  CASE m = "none" -> f
    [] m = "add_output_parameter" -> [f EXCEPT !.pars = @ \cup {Par("extra", "", {"sus"}, {"max"})}]
    [] m = "undefined_compartment_in_transition" -> [f EXCEPT !.trans = @ \cup {<<"sus", "nowhere", "rec">>}]
    [] m = "undefined_parameter_in_transition" -> [f EXCEPT !.trans = @ \cup {<<"inf", "sus", "noparam">>}]
    [] m = "duplicate_code_name" -> [f EXCEPT !.dupcodes = 1]
    [] m = "duplicate_display_name" -> [f EXCEPT !.dupdisplay = 1]
    [] m = "reserved_name" -> [f EXCEPT !.pars = @ \cup {Par("t", "", {}, {})}]
    [] m = "junction_outflow_not_proportion" -> [f EXCEPT !.pars = {IF p.name = "split1" THEN Par("split1", "probability", {}, {}) ELSE p : p \in @}]
    [] m = "proportion_on_ordinary_link" -> [f EXCEPT !.pars = {IF p.name = "rec" THEN Par("rec", "proportion", {}, {}) ELSE p : p \in @}]
    [] m = "source_outflow_not_number" -> [f EXCEPT !.pars = {IF p.name = "birth" THEN Par("birth", "probability", {}, {}) ELSE p : p \in @}]
    [] m = "sink_outflow" -> [f EXCEPT !.trans = @ \cup {<<"dead", "sus", "rec">>}]
    [] m = "inflow_to_source" -> [f EXCEPT !.trans = @ \cup {<<"inf", "src", "rec">>}]
    [] m = "self_reference" -> [f EXCEPT !.pars = {IF p.name = "foi" THEN Par("foi", p.units, p.deps \cup {"foi"}, p.calls) ELSE p : p \in @}]
    [] m = "cyclic_functions" -> [f EXCEPT !.pars = {IF p.name = "beta" THEN Par("beta", p.units, {"foi"}, {}) ELSE p : p \in @}]
    [] m = "unsupported_call" -> [f EXCEPT !.pars = {IF p.name = "foi" THEN Par("foi", p.units, p.deps, p.calls \cup {"foo"}) ELSE p : p \in @}]
    [] m = "undefined_dependency" -> [f EXCEPT !.pars = {IF p.name = "foi" THEN Par("foi", p.units, p.deps \cup {"ghost"}, p.calls) ELSE p : p \in @}]
    [] m = "undefined_characteristic_component" -> [f EXCEPT !.characs = {IF c.name = "alive" THEN [c EXCEPT !.parts = @ \cup {"ghost"}] ELSE c : c \in @}]
    [] m = "cyclic_characteristics" -> [f EXCEPT !.characs = @ \cup {[name |-> "c1", parts |-> {"c2", "sus"}, denom |-> ""], [name |-> "c2", parts |-> {"c1", "inf"}, denom |-> ""]}]
    [] m = "junction_cycle" -> [f EXCEPT !.comps = @ \cup {[name |-> "jn2", kind |-> "junction"]}, !.trans = @ \cup {<<"jn", "jn2", ">">>, <<"jn2", "jn", ">">>, <<"jn2", "rcv", "split1">>}]
    [] m = "residual_from_ordinary_compartment" -> [f EXCEPT !.trans = @ \cup {<<"sus", "rcv", ">">>}]
    [] m = "add_residual_outflow" -> [f EXCEPT !.trans = @ \cup {<<"jn", "sus", ">">>}]
    [] m = "two_residual_outflows" -> [f EXCEPT !.trans = @ \cup {<<"jn", "sus", ">">>, <<"jn", "inf", ">">>}]
    [] m = "unnested_cascade" -> [f EXCEPT !.cascade = <<{"sus", "inf"}, {"inf", "rcv"}>>]
    [] m = "unnested_cascade_later_stage" -> [f EXCEPT !.cascade = <<{"sus", "inf", "rcv"}, {"inf"}, {"rcv"}>>]     \* the last stage is inside the first but not inside the preceding one
    [] m = "capitalised_units" -> f                           \* "Number", "Rate": the standard units are not case sensitive
    [] m = "characteristic_on_unlisted_page" -> f            \* a databook page used only by a characteristic and not declared on the optional pages sheet
    [] m = "delete_transitions_sheet" -> [f EXCEPT !.sheets = @ \ {"transitions"}, !.trans = {}]
    [] m = "delete_parameters_sheet" -> [f EXCEPT !.sheets = @ \ {"parameters"}]
    [] m = "delete_format_column" -> [f EXCEPT !.columns = @ \ {"parameters.format"}]
    [] m = "delete_code_name_column" -> [f EXCEPT !.columns = @ \ {"compartments.code name"}]
    [] m = "blank_optional_column" -> f                       \* an optional column that is present but empty changes nothing
    [] m = "delete_optional_sheet" -> [f EXCEPT !.sheets = @ \ {"databook pages"}]
    [] m \in {"databook_delete_table", "databook_unit_mismatch", "databook_unit_timescale_mismatch", "databook_unit_mismatch_compartment", "databook_blank_required_values", "databook_unknown_population", "databook_missing_population_row", "databook_legacy_missing_population_row", "databook_delete_state_sheet"} -> [f EXCEPT !.datadefects = @ \cup {m}]
    \* ---- timed structures (base "sirt": the immunity of rcv lasts for the duration wane) ----
    [] m = "t_none" -> f
    [] m = "t_timed_rate" -> [f EXCEPT !.timed = @ \cup {"rec"}]
    [] m = "t_timed_targetable" -> [f EXCEPT !.targetable = @ \cup {"wane"}]
    [] m = "t_two_timed_outflows" -> [f EXCEPT !.pars = @ \cup {Par("wane2", "duration", {}, {})}, !.timed = @ \cup {"wane2"}, !.trans = @ \cup {<<"rcv", "inf", "wane2">>}]
    [] m = "t_timed_from_junction" -> [f EXCEPT !.pars = @ \cup {Par("dj", "duration", {}, {})}, !.timed = @ \cup {"dj"}, !.trans = @ \cup {<<"jn", "sus", "dj">>}]
    [] m = "t_timed_from_source" -> [f EXCEPT !.pars = @ \cup {Par("dj", "duration", {}, {})}, !.timed = @ \cup {"dj"}, !.trans = @ \cup {<<"src", "inf", "dj">>}]
    [] m = "t_group_two_comps" -> [TGroup2(f) EXCEPT !.pars = @ \cup {Par("mv", "rate", {}, {})}, !.trans = @ \cup {<<"rcv", "rcv2", "mv">>}]
    [] m = "t_flush_into_own_group_a" -> [TGroup2(f) EXCEPT !.trans = (@ \ {<<"rcv", "sus", "wane">>}) \cup {<<"rcv", "rcv2", "wane">>}]
    [] m = "t_flush_into_own_group_b" -> [TGroup2(f) EXCEPT !.pars = @ \cup {Par("mv", "rate", {}, {})}, !.trans = (@ \ {<<"rcv2", "sus", "wane">>}) \cup {<<"rcv", "rcv2", "mv">>, <<"rcv2", "rcv", "wane">>}]
    [] m = "t_junction_in_group" -> TJunction(f)
    [] m = "t_junction_mixed_inflows" -> [TJunction(f) EXCEPT !.pars = @ \cup {Par("mv2", "rate", {}, {})}, !.trans = @ \cup {<<"inf", "jt", "mv2">>}]
    [] m = "t_junction_mixed_outflows" -> [TJunction(f) EXCEPT !.pars = @ \cup {Par("two", "proportion", {}, {})}, !.trans = @ \cup {<<"jt", "sus", "two">>}]
    [] m = "t_junction_flush_back" -> [TGroup2(f) EXCEPT !.comps = @ \cup {[name |-> "jt", kind |-> "junction"]}, !.pars = @ \cup {Par("one", "proportion", {}, {})},
                                                        !.trans = (@ \ {<<"rcv", "sus", "wane">>}) \cup {<<"rcv", "jt", "wane">>, <<"jt", "rcv2", "one">>}]
    [] m = "t_junction_flush_out" -> [f EXCEPT !.comps = @ \cup {[name |-> "jt", kind |-> "junction"]}, !.pars = @ \cup {Par("one", "proportion", {}, {})},
                                               !.trans = (@ \ {<<"rcv", "sus", "wane">>}) \cup {<<"rcv", "jt", "wane">>, <<"jt", "sus", "one">>}]
    \* ---- generic mutations, phrased over the anchors of the base (f.anch: a transition parameter tpar, two compartments c1 -> c2 without a
    \*      transition, a function parameter fpar, another parameter p2) so that they apply to library files as well as to the generated base
    [] m = "g_none" -> f
    [] m = "g_undefined_parameter_in_transition" -> [f EXCEPT !.trans = @ \cup {<<f.anch.c1, f.anch.c2, "noparam">>}]
    [] m = "g_undefined_compartment_in_transition" -> [f EXCEPT !.trans = @ \cup {<<f.anch.c1, "nowhere", f.anch.tpar>>}]
    [] m = "g_duplicate_code_name" -> [f EXCEPT !.dupcodes = 1]
    [] m = "g_duplicate_display_name" -> [f EXCEPT !.dupdisplay = 1]
    [] m = "g_reserved_name" -> [f EXCEPT !.pars = @ \cup {Par("t", "", {}, {})}]
    [] m = "g_self_reference" -> [f EXCEPT !.pars = {IF p.name = f.anch.fpar THEN Par(p.name, p.units, p.deps \cup {p.name}, p.calls) ELSE p : p \in @}]
    [] m = "g_unsupported_call" -> [f EXCEPT !.pars = {IF p.name = f.anch.fpar THEN Par(p.name, p.units, p.deps, p.calls \cup {"foo"}) ELSE p : p \in @}]
    [] m = "g_undefined_dependency" -> [f EXCEPT !.pars = {IF p.name = f.anch.fpar THEN Par(p.name, p.units, p.deps \cup {"ghost"}, p.calls) ELSE p : p \in @}]
    [] m = "g_delete_parameters_sheet" -> [f EXCEPT !.sheets = @ \ {"parameters"}]
    [] m = "g_delete_format_column" -> [f EXCEPT !.columns = @ \ {"parameters.format"}]
    [] m = "g_add_output_parameter" -> [f EXCEPT !.pars = @ \cup {Par("extra", "", {f.anch.c1}, {"max"})}]
    [] m \in {"progbook_none", "progbook_lowercase_flags", "progbook_zero_outcome"} -> f          \* spelling of Y/N flags, an outcome of exactly 0: no rule broken
    [] m = "progbook_unknown_population" -> [f EXCEPT !.pb.tpops = @ \cup {"nobody"}]
    [] m = "progbook_unknown_compartment" -> [f EXCEPT !.pb.tcomps = @ \cup {"ghost"}]
    [] m \in {"progbook_duplicate_program", "progbook_duplicate_program_everywhere", "progbook_duplicate_program_consistent"} -> [f EXCEPT !.pb.dupprogs = 1]
    [] m = "progbook_reserved_program_name" -> [f EXCEPT !.pb.progs = @ \cup {"all"}]
    [] m = "progbook_untargetable_parameter" -> [f EXCEPT !.pb.epars = @ \cup {"wane"}]
    [] m = "progbook_unknown_parameter" -> [f EXCEPT !.pb.epars = @ \cup {"ghostpar"}]
    [] m = "progbook_unknown_effect_population" -> [f EXCEPT !.pb.epops = @ \cup {"nobody"}]
    [] m = "progbook_unknown_program_in_effects" -> [f EXCEPT !.pb.eprogs = @ \cup {"P9"}]
    [] m = "progbook_interaction_unknown_program" -> [f EXCEPT !.pb.iprogs = @ \cup {"P9"}]
    [] m \in {"progbook_no_target_compartment", "progbook_no_target_population"} -> [f EXCEPT !.pb.untargeted = {"P1"}]
    [] m \in {"progbook_missing_unit_cost", "progbook_missing_spending", "progbook_outcome_without_baseline", "progbook_bad_coverage_interaction", "progbook_mixed_currencies",
              "progbook_delete_effects_sheet", "progbook_delete_spending_sheet", "progbook_interaction_program_without_outcome"} -> [f EXCEPT !.pb.defects = @ \cup {m}]
Verdict(m) == IF m \in {"t_none", "t_group_two_comps", "t_junction_in_group", "t_junction_mixed_outflows", "t_junction_flush_out", "add_residual_outflow", "g_none", "g_add_output_parameter", "progbook_none", "progbook_lowercase_flags", "progbook_zero_outcome", "none", "add_output_parameter", "blank_optional_column", "delete_optional_sheet", "delete_transitions_sheet", "characteristic_on_unlisted_page", "capitalised_units"} THEN "accept" ELSE "reject"

Init == bi \in 1..Len(Bases) /\ mut = "" /\ obs = ""
Applies(b, m) == IF b.id = "sirt" \/ m \in TimedMutations THEN b.id = "sirt" /\ m \in TimedMutations ELSE b.id = "sirj" \/ m \in GenericMutations
Pick == /\ mut = ""
        /\ \E m \in {x \in Mutations : Applies(Bases[bi], x)} : mut' = m /\ obs' = ToJson([base |-> Bases[bi].id, mutation |-> m, verdict |-> Verdict(m)])
        /\ UNCHANGED bi
\* Databook defects that need structure none of the abstracted bases has: an interaction between populations whose values are missing, a timed
\* (duration) parameter whose value varies over time. Only the databook rule is concerned; the library files that have the structure are named here.
FeatureDataCases == {<<"lib_combined", "databook_interaction_missing_values">>, <<"lib_sir_vaccine", "databook_timed_parameter_varies">>}
DataVerdict(m) == IF DataComplete([datadefects |-> {m}]) THEN "accept" ELSE "reject"
PickData == /\ mut = "" /\ bi = 1
            /\ \E c \in FeatureDataCases : mut' = c[2] /\ obs' = ToJson([base |-> c[1], mutation |-> c[2], verdict |-> DataVerdict(c[2])])
            /\ UNCHANGED bi
Spec == Init /\ [][Pick \/ PickData]_vars
BaseValid == Valid(Bases[bi])
CatalogueConsistent == (mut # "" /\ mut \in Mutations) => (Valid(Mutate(Bases[bi], mut)) <=> Verdict(mut) = "accept")
====
