---- MODULE MCPlotString ----
EXTENDS PlotString
MCBad == {"call", "name", "num", "binop", "attr", "lambda", "comp", "tuple", "set", "fstr", "bytes", "ifexp", "none", "subscript"}
====
