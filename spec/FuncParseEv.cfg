SPECIFICATION Spec
CONSTANTS
  Depth = 2
  Part = "eval"
  EnvVals <- MCEnvVals
INVARIANT EvInv
CHECK_DEADLOCK FALSE
