---- MODULE PlotString ----
(***************************************************************************************************)
(* C19, second entry point: plot specifications in a framework are strings that evaluate_plot_string *)
(* turns into lists / dicts of strings.  The rule: a string containing a bracket is evaluated only    *)
(* if every node of its expression is a list display, a dict display or a string literal - in every   *)
(* position (list element, dict key, dict value) and at every depth; anything else is rejected before *)
(* evaluation (no side effect).  TLC enumerates all trees up to Depth with every disallowed kind in    *)
(* every position; the harness renders each tree and PlotString's verdict is judged by the "syn"       *)
(* clauses of FuncParseTrace.tla (MustAccept / MustReject / NoSideEffect).                             *)
(***************************************************************************************************)
EXTENDS Integers, Sequences, FiniteSets, TLC, Json
CONSTANTS Depth, BadKinds
VARIABLES tree, obs
Str == <<"str">>
Bad(b) == <<"bad", b>>
List(xs) == <<"list", xs>>
Dict(ks, vs) == <<"dict", ks, vs>>
RECURSIVE Trees(_)
Trees(d) == IF d = 0 THEN {Str} \cup {Bad(b) : b \in BadKinds}
            ELSE LET S == Trees(d - 1) IN
                 S \cup {List(<<a>>) : a \in S} \cup {List(<<Str, a>>) : a \in S}
                   \cup {Dict(<<a>>, <<Str>>) : a \in S} \cup {Dict(<<Str>>, <<a>>) : a \in S} \cup {Dict(<<Str, Str>>, <<List(<<Str>>), a>>) : a \in S}
RECURSIVE Valid(_)
Valid(t) == CASE t[1] = "str" -> TRUE
              [] t[1] = "bad" -> FALSE
              [] t[1] = "list" -> \A i \in 1..Len(t[2]) : Valid(t[2][i])
              [] t[1] = "dict" -> (\A i \in 1..Len(t[2]) : t[2][i] = Str) /\ (\A i \in 1..Len(t[3]) : Valid(t[3][i]))     \* (keys are strings: a display is not hashable)
RECURSIVE DisplayKey(_)
DisplayKey(t) == CASE t[1] \in {"str", "bad"} -> FALSE
                   [] t[1] = "list" -> \E i \in 1..Len(t[2]) : DisplayKey(t[2][i])
                   [] t[1] = "dict" -> (\E i \in 1..Len(t[2]) : t[2][i][1] \in {"list", "dict"} \/ DisplayKey(t[2][i])) \/ (\E i \in 1..Len(t[3]) : DisplayKey(t[3][i]))
RECURSIVE HasBad(_)
HasBad(t) == CASE t[1] = "str" -> FALSE
               [] t[1] = "bad" -> TRUE
               [] t[1] = "list" -> \E i \in 1..Len(t[2]) : HasBad(t[2][i])
               [] t[1] = "dict" -> (\E i \in 1..Len(t[2]) : HasBad(t[2][i])) \/ (\E i \in 1..Len(t[3]) : HasBad(t[3][i]))
\* only displays are evaluated at all (a string without brackets is returned as it is)
Roots == {t \in Trees(Depth) : t[1] \in {"list", "dict"}}
Init == tree \in Roots /\ obs = ToJson([tree |-> tree, class |-> IF Valid(tree) THEN "accept" ELSE "reject"])
Next == UNCHANGED <<tree, obs>>
Spec == Init /\ [][Next]_<<tree, obs>>
\* position independence: a tree is acceptable exactly when no disallowed node occurs anywhere in it
NoHidingPlace == Valid(tree) <=> (~HasBad(tree) /\ ~DisplayKey(tree))
====
