SPECIFICATION Spec
CONSTANTS
  Depth = 3
  Part = "syntax"
  EnvVals <- MCEnvVals
INVARIANT SynInv
CHECK_DEADLOCK FALSE
