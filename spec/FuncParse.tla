---- MODULE FuncParse ----
(***************************************************************************************************)
(* C19: parameter-function strings can only do arithmetic with whitelisted functions.               *)
(*                                                                                                   *)
(* Part 1 - syntax.  Expression trees over the node classes the property names:                      *)
(*   must-accept : numbers, names (incl. the flow forms a:b, a:, :b), arithmetic and comparison      *)
(*                 operators, calls to listed functions;                                              *)
(*   must-reject : call to an unlisted name, call whose callee is not a plain name (method call,     *)
(*                 call of a call, call of a lambda), attribute access, lambda, list / set / dict     *)
(*                 comprehension, generator expression, assignment expression, any double underscore; *)
(*   don't-care  : subscripts, conditional expressions, boolean operators, containers, strings.       *)
(* TLC enumerates every placement of a must-reject node inside allowed contexts up to depth Depth    *)
(* (exhaustive over node types and argument positions) together with purely allowed trees, and        *)
(* checks that the classification is a function of "contains a must-reject node".                     *)
(*                                                                                                   *)
(* Part 2 - evaluation.  Arithmetic trees over names with rational values: exact value (division      *)
(* gives 0 for a zero numerator), dependency set.                                                     *)
(* FuncParseTrace.tla judges what parse_function did with the rendered strings.                       *)
(***************************************************************************************************)
EXTENDS Rat, TLC, FiniteSets, Json
CONSTANTS Depth, Part, EnvVals
VARIABLES stage, tree, obs
vars == <<stage, tree, obs>>

\* ------------------------------------------------------------------------------------------ part 1: syntax
BinOps == {"+", "-", "*", "/", "**", "%", "//"}
CmpOps == {"<", "<=", ">", ">=", "==", "!="}
Fn1 == {"exp", "floor", "cos", "sin", "sqrt", "ln"}          \* listed functions of one argument
Fn2 == {"max", "min", "sdiv"}                                \* listed functions of two (or more) arguments
Leaves == {<<"num", "1">>, <<"num", "2.5">>, <<"name", "x">>, <<"name", "a:b">>, <<"name", ":b">>, <<"name", "a:">>, <<"name", "pi">>}
BadKinds == {"call_unlisted", "call_open", "call_eval", "call_getattr", "method", "method_noarg", "attr", "attr_T", "call_of_call", "call_of_lambda",
             "call_of_attr", "lambda0", "lambda1", "listcomp", "setcomp", "dictcomp", "genexp", "walrus", "dunder_call", "dunder_attr", "dunder_name",
             "dunder_fullwidth", "call_keyword", "call_starred"}      \* a double underscore spelled with a compatibility character; arguments other than plain positional ones
Bad(c) == {<<"bad", k, c>> : k \in BadKinds}
\* one-hole contexts of the allowed node types, every argument position
Ctx(h) == {<<"bin", op, h, l>> : op \in BinOps, l \in {<<"name", "x">>}} \cup {<<"bin", op, l, h>> : op \in BinOps, l \in {<<"num", "1">>}}
          \cup {<<"neg", h>>, <<"pos", h>>}
          \cup {<<"cmp", op, h, l>> : op \in CmpOps, l \in {<<"num", "1">>}} \cup {<<"cmp", op, l, h>> : op \in CmpOps, l \in {<<"name", "x">>}}
          \cup {<<"call1", f, h>> : f \in Fn1} \cup {<<"call2", f, h, l>> : f \in Fn2, l \in {<<"num", "1">>}} \cup {<<"call2", f, l, h>> : f \in Fn2, l \in {<<"name", "x">>}}
CtxSmall(h) == {<<"bin", "+", h, <<"name", "x">>>>, <<"bin", "/", <<"num", "1">>, h>>, <<"neg", h>>, <<"cmp", "<", h, <<"num", "1">>>>, <<"call1", "exp", h>>, <<"call2", "max", <<"name", "x">>, h>>}

RECURSIVE HasBad(_)
HasBad(t) == CASE t[1] = "bad" -> TRUE
               [] t[1] \in {"num", "name"} -> FALSE
               [] t[1] \in {"neg", "pos"} -> HasBad(t[2])
               [] t[1] = "call1" -> HasBad(t[3])
               [] t[1] \in {"bin", "cmp", "call2"} -> HasBad(t[3]) \/ HasBad(t[4])
Class(t) == IF HasBad(t) THEN "reject" ELSE "accept"

\* enumeration in stages so that TLC's workers share it: stage 0 chooses the innermost node, each later stage wraps it once
BadChildren == {<<"name", "x">>, <<"num", "1">>, <<"bin", "+", <<"name", "x">>, <<"num", "1">>>>, <<"call1", "exp", <<"name", "x">>>>}
SynInit == stage = 0 /\ obs = "" /\ tree \in (Leaves \cup UNION {Bad(c) : c \in BadChildren})
Wrap == /\ stage < Depth - 1 /\ obs = ""
        /\ tree' \in (IF stage = 0 THEN Ctx(tree) ELSE CtxSmall(tree))
        /\ stage' = stage + 1 /\ obs' = ""
EmitSyn == /\ obs = "" /\ obs' = ToJson([part |-> "syntax", tree |-> tree, class |-> Class(tree), depth |-> stage + 1]) /\ UNCHANGED <<stage, tree>>

\* the classification is monotone: wrapping a tree that must be rejected in any allowed context must be rejected too
ClassMonotone == \A c \in Ctx(tree) : HasBad(tree) => Class(c) = "reject"
ClassTotal == Class(tree) \in {"accept", "reject"}

\* ------------------------------------------------------------------------------------------ part 2: evaluation
Err == <<0, 0>>                                   \* undefined in real arithmetic (non-zero / 0, 0 ** negative, ...)
Names == {"x", "y"}
ALeaves == {<<"num", <<0,1>>>>, <<"num", <<2,1>>>>, <<"num", <<1,2>>>>, <<"name", "x">>, <<"name", "y">>}
AOps == {"+", "-", "*", "/", "%", "//", "**"}
ADepth1 == {<<"bin", op, a, b>> : op \in AOps, a \in ALeaves, b \in ALeaves} \cup {<<"neg", a>> : a \in ALeaves}
           \cup {<<"cmp", op, a, b>> : op \in CmpOps, a \in ALeaves, b \in ALeaves}
           \cup {<<"call2", f, a, b>> : f \in Fn2, a \in ALeaves, b \in ALeaves} \cup {<<"call1", "floor", a>> : a \in ALeaves}
IsDyadic(r) == LET RECURSIVE P2(_)
                   P2(n) == n = 1 \/ (n % 2 = 0 /\ P2(n \div 2))
               IN P2(r[2])
RECURSIVE RPow(_,_)
RPow(a, k) == IF k = 0 THEN One ELSE RMul(a, RPow(a, k - 1))
RECURSIVE Eval(_,_)
Eval(t, env) ==
  CASE t[1] = "num" -> t[2]
    [] t[1] = "name" -> env[t[2]]
    [] t[1] = "neg" -> (LET a == Eval(t[2], env) IN IF a = Err THEN Err ELSE RNeg(a))
    [] t[1] = "call1" -> (LET a == Eval(t[3], env) IN IF a = Err THEN Err ELSE RInt(RFloor(a)))                      \* floor
    [] t[1] = "cmp" -> (LET a == Eval(t[3], env)  b == Eval(t[4], env)  op == t[2] IN
                        IF a = Err \/ b = Err THEN Err
                        ELSE IF (op = "<" /\ RLt(a,b)) \/ (op = "<=" /\ RLe(a,b)) \/ (op = ">" /\ RLt(b,a)) \/ (op = ">=" /\ RLe(b,a))
                                \/ (op = "==" /\ a = b) \/ (op = "!=" /\ a # b) THEN One ELSE Zero)
    [] t[1] = "call2" -> (LET a == Eval(t[3], env)  b == Eval(t[4], env)  f == t[2] IN
                          IF a = Err \/ b = Err THEN Err
                          ELSE IF f = "max" THEN RMax(a, b) ELSE IF f = "min" THEN RMin(a, b)
                          ELSE IF a = Zero THEN Zero ELSE IF b = Zero THEN Err ELSE RDiv(a, b))                         \* sdiv
    [] t[1] = "bin" -> (LET a == Eval(t[3], env)  b == Eval(t[4], env)  op == t[2] IN
                        IF a = Err \/ b = Err THEN Err
                        ELSE IF op = "+" THEN RAdd(a, b) ELSE IF op = "-" THEN RSub(a, b) ELSE IF op = "*" THEN RMul(a, b)
                        ELSE IF op = "/" THEN (IF a = Zero THEN Zero ELSE IF b = Zero THEN Err ELSE RDiv(a, b))              \* safe division
                        ELSE IF op = "**" THEN (IF b[2] = 1 /\ b[1] >= 0 /\ b[1] <= 3 THEN RPow(a, b[1]) ELSE Err)          \* small whole exponents only
                        ELSE IF b = Zero \/ ~IsDyadic(a) \/ ~IsDyadic(b) THEN Err                                           \* % and // : dyadic operands (exact in floats)
                        ELSE IF op = "//" THEN RInt(RFloor(RDiv(a, b)))
                        ELSE RSub(a, RMul(b, RInt(RFloor(RDiv(a, b))))))
RECURSIVE Deps(_)
Deps(t) == CASE t[1] = "num" -> {}
             [] t[1] = "name" -> {t[2]}
             [] t[1] = "neg" -> Deps(t[2])
             [] t[1] = "call1" -> Deps(t[3])
             [] OTHER -> Deps(t[3]) \cup Deps(t[4])
Envs == [Names -> EnvVals]
EnvSeq == SetToSeq(Envs)
EvInit == stage = 0 /\ obs = "" /\ tree \in ALeaves \cup ADepth1
EvWrap == /\ stage = 0 /\ tree[1] = "bin" /\ obs = ""
          /\ tree' \in {<<"bin", op, tree, b>> : op \in {"+", "*", "/", "-"}, b \in ALeaves} \cup {<<"bin", op, b, tree>> : op \in {"/", "-"}, b \in ALeaves}
                       \cup {<<"call2", "max", tree, <<"num", <<1,2>>>>>>, <<"neg", tree>>}
          /\ stage' = 1 /\ obs' = ""
EmitEv == /\ obs = ""
          /\ obs' = ToJson([part |-> "eval", tree |-> tree, deps |-> Deps(tree),
                            vals |-> [k \in 1..Len(EnvSeq) |-> [x |-> EnvSeq[k]["x"], y |-> EnvSeq[k]["y"], v |-> Eval(tree, EnvSeq[k])]]])
          /\ UNCHANGED <<stage, tree>>
\* safe division agrees with ordinary division whenever that is defined, and is 0 for a zero numerator
SdivTheorem == \A a, b \in EnvVals : LET t == <<"bin", "/", <<"num", a>>, <<"num", b>>>> IN
                 /\ (a = Zero => Eval(t, [n \in Names |-> Zero]) = Zero)
                 /\ (a # Zero /\ b # Zero => Eval(t, [n \in Names |-> Zero]) = RDiv(a, b))

\* division is scale free: a quotient of two names does not change when both are multiplied by the same non-zero factor, however small
\* (only a numerator that is exactly zero gives 0) - the law the harness re-checks on the real code at factors like 2^-40
ScaleFactors == {<<1, 2>>, <<1, 1024>>, <<1, 1048576>>}
DivScaleFree == \A a, b \in EnvVals, s \in ScaleFactors : \A t \in {<<"bin", "/", <<"name", "x">>, <<"name", "y">>>>, <<"call2", "sdiv", <<"name", "x">>, <<"name", "y">>>>} :
                 Eval(t, [n \in Names |-> IF n = "x" THEN RMul(a, s) ELSE RMul(b, s)]) = Eval(t, [n \in Names |-> IF n = "x" THEN a ELSE b])

Init == IF Part = "syntax" THEN SynInit ELSE EvInit
Next == IF Part = "syntax" THEN Wrap \/ EmitSyn ELSE EvWrap \/ EmitEv
Spec == Init /\ [][Next]_vars
SynInv == Part = "syntax" => (ClassTotal /\ ClassMonotone)
EvInv == Part = "eval" => (SdivTheorem /\ DivScaleFree)
====
