SPECIFICATION Spec
CONSTANTS
  N = 2
  Sample <- MCNoSample
  SampOut <- MCNone
  SampCov <- MCNone
  CovGrid <- MCCov
  OutGrid <- MCOut
  BaseGrid <- MCBase
  Patterns <- MCPat
INVARIANT NonNegW
INVARIANT SumsToOne
INVARIANT Marginals
INVARIANT Convex
INVARIANT ZeroCov
INVARIANT Single
INVARIANT Monotone
CHECK_DEADLOCK FALSE
