---- MODULE Effects ----
(***************************************************************************************************)
(* C08 (and the frame conditions reused by C15, C16, C20): running a simulation is a pure function   *)
(* of its inputs.  Objects (parameter set, program set, instructions, framework, data, settings of   *)
(* two projects A and B) hold abstract content ids.  Every API operation is an action with an         *)
(* explicit frame: it may create a result whose content is an uninterpreted function of the contents *)
(* of its inputs, and must leave every existing object unchanged.  `memo` records which result        *)
(* content was produced from which input contents: Functional says it stays single-valued whatever    *)
(* happened in between and in whichever process; the copy operations must produce the same result     *)
(* as the plain run.  TLC enumerates all histories up to length MaxLen; the harness executes them on  *)
(* the real library and EffectsTrace.tla validates the recorded digests.                               *)
(***************************************************************************************************)
EXTENDS Integers, Sequences, FiniteSets, TLC, Json
CONSTANTS MaxLen, Ops
Inputs(op) == CASE op \in {"runA", "copyA", "pickleA", "saveloadA", "freshA"} -> {"A.parset", "A.framework", "A.data", "A.settings"}
                [] op = "runAprog" -> {"A.parset", "A.progset", "A.instructions", "A.framework", "A.data", "A.settings"}
                [] op = "runB" -> {"B.parset", "B.framework", "B.data", "B.settings"}
                [] op = "runBprog" -> {"B.parset", "B.progset", "B.instructions", "B.framework", "B.data", "B.settings"}
                \* a parameter set that carries a saved initialization loaded from a calibration file
                [] op = "runAinit" -> {"A.parset_init", "A.framework", "A.data", "A.settings"}
                \* building a generated project (framework, data, a program set assembled through the API) from scratch and running it: no inputs,
                \* so every build in one process gives the same result (no state shared between the objects of different builds)
                [] op = "buildG" -> {}
                \* the same project run with an edited copy of its framework (a limit lowered; the copy keeps the framework's identifier)
                [] op \in {"runAedit", "freshAedit"} -> {"A.parset", "A.framework_edited", "A.data", "A.settings"}
Objects == UNION {Inputs(op) : op \in Ops}
\* operations that must give the same result as the plain run of project A
Canonical(op) == IF op \in {"copyA", "pickleA", "saveloadA", "freshA"} THEN "runA" ELSE IF op = "freshAedit" THEN "runAedit" ELSE op
VARIABLES content, memo, hist, obs
vars == <<content, memo, hist, obs>>
Init == content = [o \in Objects |-> o] /\ memo = {} /\ hist = <<>> /\ obs = ""
Result(op, cont) == <<Canonical(op), [o \in Inputs(op) |-> cont[o]]>>           \* uninterpreted function of the input contents
Do(op) == /\ Len(hist) < MaxLen
          /\ memo' = memo \cup {<<<<Canonical(op), [o \in Inputs(op) |-> content[o]]>>, Result(op, content)>>}
          /\ hist' = Append(hist, op)
          /\ obs' = ToJson([ops |-> hist'])
          /\ UNCHANGED content                                                    \* the frame: no operation writes to an existing object
Next == \E op \in Ops : Do(op)
Spec == Init /\ [][Next]_vars
Frame == [][content' = content]_vars
Functional == \A a, b \in memo : a[1] = b[1] => a[2] = b[2]
====
