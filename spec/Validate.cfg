SPECIFICATION Spec
CONSTANTS
 Bases <- MCBases
 Mutations <- MCMutations
INVARIANT BaseValid
INVARIANT CatalogueConsistent
CHECK_DEADLOCK FALSE
