---- MODULE DataYears ----
(***************************************************************************************************)
(* C16, databooks: the year columns of the tables and the sparse time series inside them.           *)
(* A databook table (TimeDependentValuesEntry) has year columns `cols` (its tvec) and series that    *)
(* hold values at some years, independently of the columns (TimeSeries stores time / value pairs).   *)
(* ProjectData.change_tvec replaces the columns of every table and, as its documentation says,      *)
(* "won't modify any of the data - it will only have an effect the next time a databook is written". *)
(* The caller may pass the years as an array or as a list (Forms).  Writing the databook and reading *)
(* it back is the identity on (cols, data) provided every value sits in a year column               *)
(* (Representable: the histories generated here keep it; a value at a year that is no column has no  *)
(* cell to be written to - what the library does then is listed as open in DESIGN.md section 16).   *)
(* Years are the optional extra columns beyond the base years of the databook (which stay columns    *)
(* throughout, so that the values of all other tables stay representable); `data` is the set of      *)
(* extra years at which the tracked series holds a value.                                            *)
(* TLC enumerates the histories and emits the expected (cols, data) after each operation;            *)
(* BooksTrace.tla compares them with the real databook, and the real databook with its round trip.   *)
(***************************************************************************************************)
EXTENDS Integers, Sequences, FiniteSets, TLC, Json
CONSTANTS Years, Cols0, Data0, Forms, MaxLen,
          NewPops          \* populations that can be added to (and removed again from) the databook
VARIABLES cols, data, pops, sigma, hist, obs
vars == <<cols, data, pops, sigma, hist, obs>>
Init == cols = Cols0 /\ data = Data0 /\ pops = {} /\ sigma = "none" /\ hist = <<>> /\ obs = ""
Record(op, arg, form) == /\ hist' = Append(hist, <<op, arg, form>>)
                         /\ obs' = ToJson([hist |-> hist', content |-> [cols |-> cols', data |-> data', pops |-> pops', sigma |-> sigma']])
\* replace the year columns (any set that keeps every value representable), passing them in one of the documented forms
ChangeTvec(c, f) == /\ c # cols /\ data \subseteq c
                    /\ cols' = c /\ UNCHANGED <<data, pops, sigma>> /\ Record("change_tvec", c, f)
\* TimeSeries.insert / remove on the tracked series
SetValue(y) == /\ y \in cols \ data
               /\ data' = data \cup {y} /\ UNCHANGED <<cols, pops, sigma>> /\ Record("set_value", {y}, "")
RemoveValue(y) == /\ y \in data
                  /\ data' = data \ {y} /\ UNCHANGED <<cols, pops, sigma>> /\ Record("remove_value", {y}, "")
\* write the databook, read it back: the identity
RoundTrip == /\ (IF hist = <<>> THEN TRUE ELSE hist[Len(hist)][1] # "roundtrip")
             /\ UNCHANGED <<cols, data, pops, sigma>> /\ Record("roundtrip", {}, "")
\* the uncertainty of the tracked series: absent, explicitly zero, or positive - three different visible contents (the table was read
\* from a sheet without an Uncertainty column, so whether the column is written is decided from the series at export time)
Sigmas == {"none", "zero", "pos"}
SetSigma(v) == /\ v # sigma
               /\ sigma' = v /\ UNCHANGED <<cols, data, pops>> /\ Record("set_sigma", {v}, "")
\* ProjectData.add_pop / remove_pop: every table gains / loses the population, and so do both ends of every transfer of its type - each
\* population is listed once at either end (the harness compares the lists, not only the sets)
AddPop(q) == /\ q \notin pops
             /\ pops' = pops \cup {q} /\ UNCHANGED <<cols, data, sigma>> /\ Record("add_pop", {q}, "")
RemovePop(q) == /\ q \in pops
                /\ pops' = pops \ {q} /\ UNCHANGED <<cols, data, sigma>> /\ Record("remove_pop", {q}, "")
Next == /\ Len(hist) < MaxLen
        /\ \/ \E c \in SUBSET Years, f \in Forms : ChangeTvec(c, f)
           \/ \E y \in Years : SetValue(y) \/ RemoveValue(y)
           \/ \E q \in NewPops : AddPop(q) \/ RemovePop(q)
           \/ \E v \in Sigmas : SetSigma(v)
           \/ RoundTrip
Spec == Init /\ [][Next]_vars
Representable == data \subseteq cols
====
