---- MODULE AggregateTrace ----
(* Direction code -> spec for C20.                                                                                     *)
(* [id, kind |-> "same", a, b]              a series of a request vs the same item requested alone: identical values     *)
(* [id, kind |-> "arith", method, obs, parts, weights]  obs aggregates parts (one time index): sum / average / weighted   *)
(* [id, kind |-> "order", vals]             cascade stage values at one time index: non-increasing                        *)
(* [id, kind |-> "digest", before, after]   plotting / exporting must leave the result unchanged                          *)
(* [id, kind |-> "history", before, after]  values reported for an item before and after the result was copied / pickled /   *)
(*                                          saved (or by the copy): the value depends only on the item, not on the history  *)
EXTENDS Big, Integers, Sequences, TLC, Json, IOUtils, FiniteSets
Trace == ndJsonDeserialize(IOEnv.TRACE_FILE)
VARIABLES i, bad
SumP(e) == SSumSeq(e.parts)
MinMaxOK(e) == (\E k \in 1..Len(e.parts) : SLe(e.parts[k], SAdd(e.obs, Tol(e.obs, K1e9, 8)))) /\ (\E k \in 1..Len(e.parts) : SLe(e.obs, SAdd(e.parts[k], Tol(e.parts[k], K1e9, 8))))
ArithOK(e) ==
   IF e.method = "sum" THEN SClose(e.obs, SumP(e), K1e9, 8 + Len(e.parts))
   ELSE IF e.method = "average" THEN SClose(SMulInt(e.obs, Len(e.parts)), SumP(e), K1e9, 8 + Len(e.parts)) /\ MinMaxOK(e)
   ELSE LET sw == SSumSeq(e.weights)
            num == SSumSeq([k \in 1..Len(e.parts) |-> SMul(e.parts[k], e.weights[k])])
            lhs == SMul(e.obs, sw)
        IN sw.s = 0 \/ (SLe(SAbs(SSub(lhs, num)), [s |-> 1, m |-> UAdd(UDrop(UMul(SMax(SAbs(lhs), SAbs(num)).m, K1e9), 3), UAdd(UAdd(e.obs.m, sw.m), UAdd(SumP(e).m, <<64>>)))]) /\ MinMaxOK(e))
Failing(e) ==
   IF e.kind = "same" THEN (IF e.a = e.b THEN {} ELSE {"DependsOnOtherItems"})
   ELSE IF e.kind = "arith" THEN (IF ArithOK(e) THEN {} ELSE {"Arithmetic"})
   ELSE IF e.kind = "order" THEN (IF \A k \in 1..(Len(e.vals) - 1) : SLe(e.vals[k+1], SAdd(e.vals[k], Tol(e.vals[k], K1e9, 8))) THEN {} ELSE {"CascadeOrder"})
   ELSE IF e.kind = "history" THEN (IF e.before = e.after THEN {} ELSE {"DependsOnHistory"})
   ELSE (IF e.before = e.after THEN {} ELSE {"ResultModified"})
Init == i = 1 /\ bad = {}
Next == /\ i <= Len(Trace)
        /\ bad' = IF Cardinality(bad) > 60 THEN bad ELSE bad \cup {<<Trace[i].id, c>> : c \in Failing(Trace[i])}
        /\ i' = i + 1
Spec == Init /\ [][Next]_<<i, bad>>
Verdict == i > Len(Trace) => bad = {}
Consumed == TLCGet("stats").diameter - 1 = Len(Trace)
====
