---- MODULE CovoutTrace ----
(* Direction code -> spec for C12: what Covout.get_outcome returned for every enumerated case, judged by TLC. *)
(* Records:  [id, kind |-> "case",  cov, out, base, lo, hi, expect, obs]                                       *)
(*           [id, kind |-> "probe", want (a coverage, rational), obs]        marginal probed with indicator outcomes *)
(*           [id, kind |-> "pair",  sgn, obs1, obs2]                          coverage raised from case 1 to case 2 *)
EXTENDS Rat, Big, TLC, Json, IOUtils, FiniteSets
Trace == JsonDeserialize(IOEnv.TRACE_FILE)
VARIABLES i, bad
AllZero(e) == \A k \in 1..Len(e.cov) : e.cov[k] = Zero
OnlyOne(e, k) == \A j \in 1..Len(e.cov) : j = k \/ e.cov[j] = Zero
CaseFailing(e) ==
     (IF RatClose(e.expect, e.obs, K1e9, 8) THEN {} ELSE {"Expect"})
\cup (IF RatLeFix(e.lo, e.obs, K1e9, 8) /\ FixLeRat(e.obs, e.hi, K1e9, 8) THEN {} ELSE {"Convex"})
\cup (IF AllZero(e) /\ ~RatClose(e.base, e.obs, K1e9, 8) THEN {"ZeroCov"} ELSE {})
\cup (IF \E k \in 1..Len(e.cov) : OnlyOne(e, k) /\ ~RatClose(RAdd(e.base, RMul(e.cov[k], RSub(e.out[k], e.base))), e.obs, K1e9, 8) THEN {"Single"} ELSE {})
ProbeFailing(e) == IF RatClose(e.want, e.obs, K1e9, 8) THEN {} ELSE {"Marginal"}
PairFailing(e) == LET a == IF e.sgn = 1 THEN e.obs1 ELSE e.obs2
                      b == IF e.sgn = 1 THEN e.obs2 ELSE e.obs1
                  IN IF SLe(a, SAdd(b, Tol(b, K1e9, 8))) THEN {} ELSE {"Monotone"}
\* [id, kind |-> "hist", obs1, obs2]: the outcome returned by an object after sample() and by the object rebuilt from its visible data
HistFailing(e) == IF SClose(e.obs1, e.obs2, K1e9, 8) THEN {} ELSE {"HistoryIndependent"}
Failing(e) == IF e.kind = "case" THEN CaseFailing(e) ELSE IF e.kind = "probe" THEN ProbeFailing(e) ELSE IF e.kind = "hist" THEN HistFailing(e) ELSE PairFailing(e)
Init == i = 1 /\ bad = {}
Next == /\ i <= Len(Trace)
        /\ bad' = IF Cardinality(bad) > 30 THEN bad ELSE bad \cup {<<Trace[i].id, c>> : c \in Failing(Trace[i])}
        /\ i' = i + 1
Spec == Init /\ [][Next]_<<i, bad>>
Verdict == i > Len(Trace) => bad = {}
Consumed == TLCGet("stats").diameter - 1 = Len(Trace)
====
