---- MODULE ValidateTrace ----
(* Direction code -> spec for C18: what the library did with every materialised (base, mutation) file.                      *)
(* [id, verdict ("accept" | "reject"), outcome ("accepted" | "rejected" | "error"), runnable]                                  *)
(*   outcome "rejected" = one of the library's dedicated invalid-input errors; "error" = any other exception.                   *)
EXTENDS Integers, Sequences, TLC, Json, IOUtils, FiniteSets
Trace == JsonDeserialize(IOEnv.TRACE_FILE)
VARIABLES i, bad
Failing(e) == (IF e.outcome = "error" THEN {"InternalError"} ELSE {})
         \cup (IF e.outcome \notin {"accepted", "rejected", "error"} \/ e.verdict \notin {"accept", "reject"} THEN {"Malformed"} ELSE {})
         \cup (IF e.verdict = "reject" /\ e.outcome = "accepted" THEN {"SilentlyAccepted"} ELSE {})
         \cup (IF e.verdict = "accept" /\ e.outcome = "rejected" THEN {"ValidRejected"} ELSE {})
         \cup (IF e.verdict = "accept" /\ e.outcome = "accepted" /\ ~e.runnable THEN {"NotRunnable"} ELSE {})
Init == i = 1 /\ bad = {}
Next == /\ i <= Len(Trace)
        /\ bad' = IF Cardinality(bad) > 60 THEN bad ELSE bad \cup {<<Trace[i].id, c>> : c \in Failing(Trace[i])}
        /\ i' = i + 1
Spec == Init /\ [][Next]_<<i, bad>>
Verdict == i > Len(Trace) => bad = {}
Consumed == TLCGet("stats").diameter - 1 = Len(Trace)
====
