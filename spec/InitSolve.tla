---- MODULE InitSolve ----
(***************************************************************************************************)
(* C07: the initial state matches the databook or the run is refused; characteristic sums stay      *)
(* consistent.  Population.initialize_compartments solves a linear system with numpy.linalg.lstsq;   *)
(* the solver is specified by its postcondition.  A structure (module InitWorlds, generated from     *)
(* harness/props_c07.py) lists the compartments and the databook quantities used for initialization *)
(* (rows): a row is a compartment or a characteristic (set of member compartments), possibly a       *)
(* fraction of a denominator row.  A case adds the databook values and the calibration factors.      *)
(*   Initialize(case) \in { Accept(x) : x >= 0 /\ \A rows i : |sum of members of i in x - B(i)| <= 1e-6 } \cup { Refuse } *)
(* where B(i) = data_i x y_i x meta_i, times data_d x y_d x meta_d for a fraction of denominator d.     *)
(* TLC enumerates the cases, computes B exactly and classifies each case by searching the grid for   *)
(* an exact non-negative solution (informational: refusing a solvable case is allowed, starting from *)
(* numbers that do not satisfy the relation is not).  InitSolveTrace.tla judges the real outcomes.   *)
(***************************************************************************************************)
EXTENDS InitWorlds, TLC, FiniteSets, Json
CONSTANTS FactorGrid, SolGrid
VARIABLES si, case, obs
vars == <<si, case, obs>>
S == Structures[si]
NRows(s) == Len(s.members)
RECURSIVE ProdSeq(_)
ProdSeq(ss) == IF ss = <<>> THEN {<<>>} ELSE {<<x>> \o t : x \in Head(ss), t \in ProdSeq(Tail(ss))}

\* target value of row i
Scaled(c, i) == RMul(RMul(c.data[i], c.y[i]), c.meta[i])
B(s, c, i) == IF s.denom[i] = 0 THEN Scaled(c, i) ELSE RMul(Scaled(c, i), Scaled(c, s.denom[i]))
\* members[i] is a sequence: a compartment that a characteristic includes twice (directly and through a nested characteristic) counts twice,
\* as it does in the characteristic's reported value
RowSum(s, x, i) == RSumSeq([j \in 1..Len(s.members[i]) |-> x[s.members[i][j]]])
ExactSolution(s, c, x) == \A i \in 1..NRows(s) : s.used[i] => RowSum(s, x, i) = B(s, c, i)
SolvableOnGrid(s, c) == \E x \in [1..s.ncomp -> SolGrid] : ExactSolution(s, c, x)

Init == si \in 1..Len(Structures) /\ case = <<>> /\ obs = ""
Pick == /\ case = <<>>
        /\ \E d \in ProdSeq(S.dom), f \in FactorGrid :
              LET c == [data |-> d, y |-> [i \in 1..NRows(S) |-> IF i % 2 = 1 THEN f[1] ELSE One], meta |-> [i \in 1..NRows(S) |-> IF i = NRows(S) \/ S.denom[i] # 0 THEN f[2] ELSE One]] IN
              /\ case' = c
              /\ obs' = ToJson([s |-> S.id, case |-> c, b |-> [i \in 1..NRows(S) |-> B(S, c, i)], solvable |-> SolvableOnGrid(S, c)])
        /\ UNCHANGED si
Spec == Init /\ [][Pick]_vars

\* rows that are fractions never exceed their denominator in an exact solution when the fraction is at most 1
FractionBound == case # <<>> => \A i \in 1..NRows(S) : (S.denom[i] # 0 /\ RLe(Scaled(case, i), One)) => RLe(B(S, case, i), Scaled(case, S.denom[i]))
====
