---- MODULE Books ----
(***************************************************************************************************)
(* C16: objects behave as their visible data; round trips preserve content and behaviour.           *)
(* The visible content of a program set, abstractly: populations, programs, targetable parameters,  *)
(* the targeting relation (program, population) and the effect table (parameter, population) -> set *)
(* of programs with an outcome.  Editing operations are actions on this content; exporting to a      *)
(* spreadsheet and importing is the identity on it.  WellFormed (no effect or target refers to a     *)
(* population, program, parameter or compartment that is no longer there) is an invariant of every history, and   *)
(* so the object after any history equals the object rebuilt from its own export.                    *)
(* TLC enumerates the histories and emits the expected visible content after each operation;         *)
(* BooksTrace.tla compares it with the content projected from the real objects, and with the content *)
(* after a real export / import.                                                                      *)
(***************************************************************************************************)
EXTENDS Integers, Sequences, FiniteSets, TLC, Json
CONSTANTS Pops0, Progs0, Pars0,      \* initial sets of names
          Targets0,                  \* initial set of <<program, population>>
          Effects0,                  \* initial set of <<parameter, population, program>>
          Comps0,                    \* compartments of the framework (the program book lists them; an import re-derives them from the framework)
          CTargets0,                 \* initial set of <<program, compartment>>
          NewPop, NewProg, MaxLen, Ops
VARIABLES pops, progs, pars, targets, effects, comps, ctargets, hist, obs
vars == <<pops, progs, pars, targets, effects, comps, ctargets, hist, obs>>
Content == [pops |-> pops, progs |-> progs, pars |-> pars, targets |-> targets, effects |-> effects, comps |-> comps, ctargets |-> ctargets]
Init == /\ pops = Pops0 /\ progs = Progs0 /\ pars = Pars0 /\ targets = Targets0 /\ effects = Effects0
        /\ comps = Comps0 /\ ctargets = CTargets0 /\ hist = <<>> /\ obs = ""
\* The removal operations of the library take the code name or the full name (label) of their argument: the same abstract action, two
\* concrete calls.  The history records which one (by), and the harness makes the call that way.
Bys == {"code", "label"}
RecordBy(op, arg, by) == /\ hist' = Append(hist, <<op, arg, by>>)
                   /\ obs' = ToJson([hist |-> hist', content |-> [pops |-> pops', progs |-> progs', pars |-> pars', targets |-> targets', effects |-> effects',
                                                                    comps |-> comps', ctargets |-> ctargets']])
Record(op, arg) == RecordBy(op, arg, "code")
Same == UNCHANGED <<pops, progs, pars, targets, effects, comps, ctargets>>
Copy == "copy" \in Ops /\ Same /\ Record("copy", "")
Sample0 == /\ "sample0" \in Ops /\ \A k \in 1..Len(hist) : hist[k][1] # "sample0"      \* (an object can be sampled once)
           /\ Same /\ Record("sample0", "")                                   \* sampling with zero uncertainty returns an equal copy
\* export to a spreadsheet, import it again: the identity on the visible content, except that the lists of compartments and of targetable
\* parameters are read from the framework again (a compartment or parameter removed from the object, which by then no program targets
\* and no effect refers to, is listed again; one added under a name the framework does not have is not)
RoundTrip == /\ "roundtrip" \in Ops /\ UNCHANGED <<pops, progs, targets, effects, ctargets>> /\ comps' = Comps0 /\ pars' = Pars0 /\ Record("roundtrip", "")
AddPop == /\ "add_pop" \in Ops /\ NewPop \notin pops
          /\ pops' = pops \cup {NewPop} /\ UNCHANGED <<progs, pars, targets, effects, comps, ctargets>> /\ Record("add_pop", NewPop)
RemovePop(p) == /\ "remove_pop" \in Ops /\ p \in pops /\ Cardinality(pops) > 1
                /\ pops' = pops \ {p}
                /\ targets' = {t \in targets : t[2] # p}
                /\ effects' = {e \in effects : e[2] # p}
                /\ UNCHANGED <<progs, pars, comps, ctargets>> /\ (\E by \in Bys : RecordBy("remove_pop", p, by))
AddProg == /\ "add_program" \in Ops /\ NewProg \notin progs
           /\ progs' = progs \cup {NewProg} /\ UNCHANGED <<pops, pars, targets, effects, comps, ctargets>> /\ Record("add_program", NewProg)
RemoveProg(g) == /\ "remove_program" \in Ops /\ g \in progs /\ Cardinality(progs) > 1
                 /\ progs' = progs \ {g}
                 /\ targets' = {t \in targets : t[1] # g}
                 /\ effects' = {e \in effects : e[3] # g}
                 /\ ctargets' = {t \in ctargets : t[1] # g}
                 /\ UNCHANGED <<pops, pars, comps>> /\ (\E by \in Bys : RecordBy("remove_program", g, by))
RemovePar(x) == /\ "remove_par" \in Ops /\ x \in pars
                /\ pars' = pars \ {x}
                /\ effects' = {e \in effects : e[1] # x}
                /\ UNCHANGED <<pops, progs, targets, comps, ctargets>> /\ (\E by \in Bys : RecordBy("remove_par", x, by))
\* adding a targetable parameter (one of the framework that the object does not list: ProgramSet.add_par "when an existing project has a
\* change made to the framework"): it has no effects yet, nothing else changes, and the object can still be exported and read back
AddPar(x) == /\ "add_par" \in Ops /\ x \in Pars0 \ pars
             /\ pars' = pars \cup {x} /\ UNCHANGED <<pops, progs, targets, effects, comps, ctargets>> /\ Record("add_par", x)
\* removing a compartment also removes it from every program's target compartments; adding one (a compartment of the framework that the
\* object does not list: ProgramSet.add_comp "after a change made to the framework") makes it targetable again and changes nothing else
RemoveComp(c) == /\ "remove_comp" \in Ops /\ c \in comps
                 /\ comps' = comps \ {c}
                 /\ ctargets' = {t \in ctargets : t[2] # c}
                 /\ UNCHANGED <<pops, progs, pars, targets, effects>> /\ (\E by \in Bys : RecordBy("remove_comp", c, by))
AddComp(c) == /\ "add_comp" \in Ops /\ c \in Comps0 \ comps
              /\ comps' = comps \cup {c}
              /\ UNCHANGED <<pops, progs, pars, targets, effects, ctargets>> /\ Record("add_comp", c)
Next == /\ Len(hist) < MaxLen
        /\ (Copy \/ Sample0 \/ RoundTrip \/ AddPop \/ AddProg \/ (\E p \in pops : RemovePop(p)) \/ (\E g \in progs : RemoveProg(g)) \/ (\E x \in pars : RemovePar(x))
            \/ (\E x \in Pars0 : AddPar(x)) \/ (\E c \in comps : RemoveComp(c)) \/ (\E c \in Comps0 : AddComp(c)))
Spec == Init /\ [][Next]_vars
WellFormed == /\ \A t \in targets : t[1] \in progs /\ t[2] \in pops
              /\ \A e \in effects : e[1] \in pars /\ e[2] \in pops /\ e[3] \in progs
              /\ \A t \in ctargets : t[1] \in progs /\ t[2] \in comps
              /\ comps \subseteq Comps0 /\ pars \subseteq Pars0
====
