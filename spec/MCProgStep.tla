---- MODULE MCProgStep ----
EXTENDS ProgStep
MCUnits == {"number", "probability", "rate", "proportion", "fraction"}
MCOutcomes == {<<0,1>>, <<1,4>>, <<9,10>>, <<3,1>>}
MCPopSizes == {<<0,1>>, <<50,1>>}
MCDts == {<<1,4>>, <<1,1>>}
MCLimits == {<<<<0,1>>, <<1000000,1>>>>, <<<<0,1>>, <<1,1>>>>, <<<<1,2>>, <<2,1>>>>}
====
