---- MODULE Sampling ----
(***************************************************************************************************)
(* C17: sampled runs are independent draws, serial or parallel, and do not alter their sources.      *)
(* A parent process holds the global random generator (an abstract stream <<id, position>>).         *)
(* Serial execution draws every sample from the parent's stream.  Parallel execution forks W workers *)
(* (multiprocessing.Pool with initializer utils._worker_init): a fork copies the parent's stream;    *)
(* whether the initializer reseeds it is the constant ReseedOnWorkerInit, whose value is *observed*  *)
(* on the real initializer by the harness.  Samples are assigned to workers in any order.            *)
(* Distinct is the property: no two samples of one call use the same part of the same stream.        *)
(* The source objects are an abstract content id that no action may change (SourceUntouched).        *)
(***************************************************************************************************)
EXTENDS Integers, FiniteSets, Sequences, TLC, Json
CONSTANTS W, S, ReseedOnWorkerInit, DrawsPerSample, Parallel, PriorPositions
Workers == 1..W
Samples == 1..S
VARIABLES rng, parent, started, todo, draw, nextStream, source, hist, obs
vars == <<rng, parent, started, todo, draw, nextStream, source, hist, obs>>
Init == /\ rng = [w \in Workers |-> <<0,0>>]
        /\ parent \in {<<0, p>> : p \in PriorPositions}            \* any prior state of the global generator
        /\ started = {} /\ todo = Samples /\ draw = [s \in Samples |-> <<>>] /\ nextStream = 1
        /\ source = "content0" /\ hist = <<>> /\ obs = ""
\* ---- parallel ----
Fork(w) == /\ Parallel /\ w \notin started
           /\ started' = started \cup {w}
           /\ IF ReseedOnWorkerInit THEN rng' = [rng EXCEPT ![w] = <<nextStream, 0>>] /\ nextStream' = nextStream + 1
              ELSE rng' = [rng EXCEPT ![w] = parent] /\ UNCHANGED nextStream       \* the fork copies the parent's generator state
           /\ UNCHANGED <<parent, todo, draw, source, hist, obs>>
Run(w, s) == /\ Parallel /\ w \in started /\ s \in todo
             /\ draw' = [draw EXCEPT ![s] = rng[w]]
             /\ rng' = [rng EXCEPT ![w] = <<rng[w][1], rng[w][2] + DrawsPerSample>>]
             /\ todo' = todo \ {s}
             /\ hist' = Append(hist, <<w, s>>)
             /\ obs' = IF todo' = {} THEN ToJson([w |-> W, s |-> S, prior |-> parent[2], runs |-> hist']) ELSE ""
             /\ UNCHANGED <<parent, started, nextStream, source>>
\* ---- serial ----
RunSerial(s) == /\ ~Parallel /\ s \in todo /\ \A t \in todo : s <= t
                /\ draw' = [draw EXCEPT ![s] = parent]
                /\ parent' = <<parent[1], parent[2] + DrawsPerSample>>
                /\ todo' = todo \ {s} /\ hist' = Append(hist, <<0, s>>)
                /\ obs' = IF todo' = {} THEN ToJson([w |-> 0, s |-> S, prior |-> parent[2], runs |-> hist']) ELSE ""
                /\ UNCHANGED <<rng, started, nextStream, source>>
Next == (\E w \in Workers : Fork(w)) \/ (\E w \in Workers, s \in Samples : Run(w, s)) \/ (\E s \in Samples : RunSerial(s))
Spec == Init /\ [][Next]_vars
\* hist and obs are observation only: hide them from the fingerprint when only the invariants matter
View == <<rng, parent, started, todo, draw, nextStream, source>>

Distinct == \A i, j \in Samples : (i # j /\ draw[i] # <<>> /\ draw[j] # <<>>) =>
               ~(draw[i][1] = draw[j][1] /\ draw[i][2] < draw[j][2] + DrawsPerSample /\ draw[j][2] < draw[i][2] + DrawsPerSample)
SourceUntouched == [][source' = source]_vars
====
