---- MODULE EffectsTrace ----
(* Direction code -> spec for the frame / purity properties: one record per executed API call.                 *)
(* [id, hist (history id), op (canonical operation name), key (digest of all inputs before the call),           *)
(*  before, after (digest of all inputs before / after the call), result (digest of the outputs), pid]          *)
(* Frame: before = after.  Functional: equal (op, key) => equal result, across the whole file (all histories,   *)
(* all processes).                                                                                              *)
EXTENDS Integers, Sequences, TLC, Json, IOUtils, FiniteSets
Trace == JsonDeserialize(IOEnv.TRACE_FILE)
VARIABLES i, bad, memo
Init == i = 1 /\ bad = {} /\ memo = [k \in {} |-> ""]
Next == /\ i <= Len(Trace)
        /\ LET e == Trace[i]
               k == <<e.op, e.key>>
               frame == IF e.before = e.after THEN {} ELSE {<<e.id, "Frame">>}
               fun == IF k \in DOMAIN memo /\ memo[k] # e.result THEN {<<e.id, "Functional">>} ELSE {}
           IN /\ bad' = IF Cardinality(bad) > 60 THEN bad ELSE bad \cup frame \cup fun
              /\ memo' = IF k \in DOMAIN memo THEN memo ELSE [x \in DOMAIN memo \cup {k} |-> IF x = k THEN e.result ELSE memo[x]]
        /\ i' = i + 1
Spec == Init /\ [][Next]_<<i, bad, memo>>
Verdict == i > Len(Trace) => bad = {}
Consumed == TLCGet("stats").diameter - 1 = Len(Trace)
====
