---- MODULE Big ----
(* Multi-limb arithmetic for numbers observed in the implementation (IEEE doubles converted exactly).   *)
(* TLC integers are 32-bit and the Json module mangles integers >= 2^31, so an observed value v is      *)
(* shipped as  [s |-> sign, m |-> limbs]  with  |v| * 2^60 = SUM m[i] * B^(i-1)  (little-endian, B=2^15, *)
(* floor).  Scale 2^60 = four whole limbs, so rescaling a product is dropping four limbs.                 *)
EXTENDS Integers, Sequences, SequencesExt
B == 32768
FRAC == 4                                  \* limbs after the binary point

\* ---------- unsigned magnitudes -----------------------------------------------------------------------
RECURSIVE AddC(_,_,_)
AddC(a,b,c) == IF a = <<>> /\ b = <<>> THEN (IF c = 0 THEN <<>> ELSE <<c>>)
               ELSE LET x == IF a = <<>> THEN 0 ELSE Head(a)
                        y == IF b = <<>> THEN 0 ELSE Head(b)
                        s == x + y + c
                    IN <<s % B>> \o AddC(IF a = <<>> THEN <<>> ELSE Tail(a), IF b = <<>> THEN <<>> ELSE Tail(b), s \div B)
UAdd(a,b) == AddC(a,b,0)
RECURSIVE SubC(_,_,_)                        \* a - b - c, requires a >= b + c
SubC(a,b,c) == IF a = <<>> THEN <<>>
               ELSE LET y == IF b = <<>> THEN 0 ELSE Head(b)
                        d == Head(a) - y - c
                    IN <<IF d < 0 THEN d + B ELSE d>> \o SubC(Tail(a), IF b = <<>> THEN <<>> ELSE Tail(b), IF d < 0 THEN 1 ELSE 0)
RECURSIVE MulS(_,_,_)                        \* a * k + c for 0 <= k < 2^15
MulS(a,k,c) == IF a = <<>> THEN (IF c = 0 THEN <<>> ELSE <<c>>)
               ELSE LET p == Head(a)*k + c IN <<p % B>> \o MulS(Tail(a),k,p \div B)
RECURSIVE UMul(_,_)
UMul(a,b) == IF b = <<>> \/ a = <<>> THEN <<>> ELSE UAdd(MulS(a,Head(b),0), <<0>> \o UMul(a,Tail(b)))
RECURSIVE CmpI(_,_,_)
CmpI(a,b,i) == IF i = 0 THEN 0 ELSE
     LET x == IF i <= Len(a) THEN a[i] ELSE 0
         y == IF i <= Len(b) THEN b[i] ELSE 0
     IN IF x < y THEN -1 ELSE IF x > y THEN 1 ELSE CmpI(a,b,i-1)
UCmp(a,b) == CmpI(a,b, IF Len(a) > Len(b) THEN Len(a) ELSE Len(b))
ULe(a,b) == UCmp(a,b) <= 0
USub(a,b) == SubC(a,b,0)
UDrop(a,k) == IF Len(a) <= k THEN <<>> ELSE SubSeq(a, k+1, Len(a))
UShift(a,k) == [i \in 1..k |-> 0] \o a                  \* multiply by B^k
RECURSIVE UFromInt(_)
UFromInt(n) == IF n = 0 THEN <<>> ELSE <<n % B>> \o UFromInt(n \div B)
UIsZero(a) == \A i \in 1..Len(a) : a[i] = 0

\* ---------- signed numbers [s, m] ---------------------------------------------------------------------
SZero == [s |-> 0, m |-> <<>>]
SMk(s, m) == IF UIsZero(m) THEN SZero ELSE [s |-> s, m |-> m]
SNeg(a) == [s |-> -a.s, m |-> a.m]
SAbs(a) == [s |-> IF a.s = 0 THEN 0 ELSE 1, m |-> a.m]
SAdd(a,b) == IF a.s = 0 THEN b ELSE IF b.s = 0 THEN a
             ELSE IF a.s = b.s THEN [s |-> a.s, m |-> UAdd(a.m, b.m)]
             ELSE LET c == UCmp(a.m, b.m) IN
                  IF c = 0 THEN SZero ELSE IF c > 0 THEN [s |-> a.s, m |-> USub(a.m, b.m)] ELSE [s |-> b.s, m |-> USub(b.m, a.m)]
SSub(a,b) == SAdd(a, SNeg(b))
SMul(a,b) == IF a.s = 0 \/ b.s = 0 THEN SZero ELSE [s |-> a.s * b.s, m |-> UMul(a.m, b.m)]   \* scale doubles
SMulInt(a,k) == IF k = 0 \/ a.s = 0 THEN SZero ELSE [s |-> IF k < 0 THEN -a.s ELSE a.s, m |-> UMul(a.m, UFromInt(IF k < 0 THEN -k ELSE k))]
SCmp(a,b) == IF a.s # b.s THEN (IF a.s < b.s THEN -1 ELSE 1)
             ELSE IF a.s = 0 THEN 0 ELSE a.s * UCmp(a.m, b.m)
SLe(a,b) == SCmp(a,b) <= 0
SLt(a,b) == SCmp(a,b) < 0
SMax(a,b) == IF SLe(a,b) THEN b ELSE a
SFromInt(k) == IF k = 0 THEN SZero ELSE [s |-> IF k < 0 THEN -1 ELSE 1, m |-> UShift(UFromInt(IF k < 0 THEN -k ELSE k), FRAC)]  \* at scale 2^60
SOne == SFromInt(1)
SSumSeq(s) == FoldLeft(LAMBDA acc, x : SAdd(acc, x), SZero, s)
SNonNeg(a) == a.s >= 0
\* drop one scale (after a product of two scale-2^60 numbers), truncating toward zero
SRescale(a) == SMk(a.s, UDrop(a.m, FRAC))

\* ---------- tolerances ----------------------------------------------------------------------------------
\* rtol constants as two-limb multipliers over 2^45 (three limbs): value = K / 2^45
\*   1e-9  ~ 35185 / 2^45  (1.0000058e-9)      1e-8 ~ 351844 / 2^45      1e-6 ~ 35184373 / 2^45
K1e9 == <<2417, 1>>            \* 35185 = 1*32768 + 2417
K1e8 == <<24164, 10>>          \* 351844 = 10*32768 + 24164
K1e6 == <<24245, 1073>>        \* 35184373 = 1073*32768 + 24245 (1.00000003e-6)
K1e12 == <<36>>                \* 36 / 2^45 = 1.023e-12
\* rtol * max(1, |v|) + slack, at the scale of v (2^60), slack in units of 2^-60
Tol(v, Kc, slack) == [s |-> 1, m |-> UAdd(UDrop(UMul(SMax(SAbs(v), SOne).m, Kc), 3), UFromInt(slack))]
SClose(a, b, Kc, slack) == SLe(SAbs(SSub(a,b)), Tol(b, Kc, slack))
\* exact rational r = <<n,d>> (32-bit ints, d > 0) against an observed value f:  |f*d - n| <= tol(r)*d
RatClose(r, f, Kc, slack) == LET lhs == SAbs(SSub(SMulInt(f, r[2]), SFromInt(r[1])))
                                 ref == SMax(SAbs(SFromInt(r[1])), SFromInt(r[2]))          \* max(|n|, d) = d * max(1,|r|)
                                 tol == [s |-> 1, m |-> UAdd(UDrop(UMul(ref.m, Kc), 3), UFromInt(slack * r[2]))]
                             IN SLe(lhs, tol)
\* one-sided versions:  r <= f (+tol)   and   f <= r (+tol)
RatTol(r, Kc, slack) == LET ref == SMax(SAbs(SFromInt(r[1])), SFromInt(r[2])) IN [s |-> 1, m |-> UAdd(UDrop(UMul(ref.m, Kc), 3), UFromInt(slack * r[2]))]
RatLeFix(r, f, Kc, slack) == SLe(SSub(SFromInt(r[1]), SMulInt(f, r[2])), RatTol(r, Kc, slack))
FixLeRat(f, r, Kc, slack) == SLe(SSub(SMulInt(f, r[2]), SFromInt(r[1])), RatTol(r, Kc, slack))
====
