---- MODULE OptLoop ----
(***************************************************************************************************)
(* C15: optimisation and calibration never make things worse and never leak side effects.           *)
(* Control flow of atomica.calibration.calibrate, atomica.optimization.optimize and                  *)
(* Project.run_optimization: the caller's objects (parameter set, program set, instructions,         *)
(* settings incl. the temporarily shortened end year) are abstract content ids; the procedure works  *)
(* on copies, evaluates the objective at the starting point, then lets the optimiser propose points; *)
(* every evaluation may crash (an exception out of the simulation) or return infinity (rejected      *)
(* proposal).  Whether the entry point restores the end year when an evaluation fails is the         *)
(* constant RestoreOnFailure, whose value is observed on the real code by the harness (crash          *)
(* injection at the k-th simulation).                                                                 *)
(***************************************************************************************************)
EXTENDS Integers, TLC, FiniteSets
CONSTANTS Kmax,               \* evaluation budget of the optimiser (after the initial evaluation)
          Objs,               \* objective values (integers); Inf below stands for a rejected proposal
          ShortensEnd,        \* the entry point shortens settings.sim_end while it runs
          RestoreOnFailure    \* ... and restores it when an evaluation raises
Inf == 1000000
VARIABLES phase, caller, work, k, f0, best, ret
vars == <<phase, caller, work, k, f0, best, ret>>
Caller0 == [parset |-> "ps0", progset |-> "pg0", instr |-> "in0", simEnd |-> "end0"]
Init == phase = "idle" /\ caller = Caller0 /\ work = <<>> /\ k = 0 /\ f0 = Inf /\ best = Inf /\ ret = Inf
Enter == /\ phase = "idle"
         /\ caller' = IF ShortensEnd THEN [caller EXCEPT !.simEnd = "short"] ELSE caller
         /\ work' = [parset |-> "copy(ps0)", progset |-> "copy(pg0)", instr |-> "copy(in0)"]       \* copies: the caller's objects are never written
         /\ phase' = "entered" /\ UNCHANGED <<k, f0, best, ret>>
Restore(c) == [c EXCEPT !.simEnd = "end0"]
Crash == /\ phase \in {"entered", "iterating"}
         /\ caller' = IF RestoreOnFailure THEN Restore(caller) ELSE caller
         /\ phase' = "aborted" /\ UNCHANGED <<work, k, f0, best, ret>>
InitialEval == /\ phase = "entered"
               /\ \E v \in Objs \cup {Inf} :
                    IF v = Inf THEN /\ phase' = "aborted" /\ caller' = (IF RestoreOnFailure THEN Restore(caller) ELSE caller) /\ UNCHANGED <<f0, best>>     \* invalid initial conditions
                    ELSE /\ f0' = v /\ best' = v /\ phase' = "iterating" /\ UNCHANGED caller
               /\ UNCHANGED <<work, k, ret>>
Iterate == /\ phase = "iterating" /\ k < Kmax
           /\ \E v \in Objs \cup {Inf} : best' = IF v < best THEN v ELSE best      \* the optimiser keeps the best point seen
           /\ k' = k + 1 /\ UNCHANGED <<phase, caller, work, f0, ret>>
Finish == /\ phase = "iterating"                                                   \* converged, or out of budget (k = Kmax)
          /\ ret' = best /\ caller' = Restore(caller) /\ phase' = "returned"
          /\ UNCHANGED <<work, k, f0, best>>
Next == Enter \/ Crash \/ InitialEval \/ Iterate \/ Finish
Spec == Init /\ [][Next]_vars
NoWorse == phase = "returned" => ret <= f0
Restored == phase \in {"returned", "aborted"} => caller = Caller0
WorksOnCopies == caller.parset = "ps0" /\ caller.progset = "pg0" /\ caller.instr = "in0"
====
