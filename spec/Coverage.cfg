SPECIFICATION Spec
CONSTANTS
  Spends <- MCSpends
  Costs <- MCCosts
  Constraints <- MCConstraints
  Sats <- MCSats
  Eligs <- MCEligs
  Dts <- MCDts
  Overwrites <- MCOverwrites
INVARIANT Bounded
INVARIANT UpperOK
INVARIANT ConstraintOK
INVARIANT NobodyEligible
INVARIANT MonoSpend
INVARIANT MonoCost
INVARIANT MonoCov
INVARIANT DtIndependent
INVARIANT Precedence
CHECK_DEADLOCK FALSE
