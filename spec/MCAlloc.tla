---- MODULE MCAlloc ----
EXTENDS Alloc
MCGrid == {<<0,1>>, <<1,1>>, <<2,1>>, <<5,1>>}
MCInitials2 == {<<<<1,1>>, <<2,1>>>>, <<<<2,1>>, <<2,1>>>>, <<<<0,1>>, <<5,1>>>>}
MCInitials3 == {<<<<1,1>>, <<2,1>>, <<3,1>>>>, <<<<0,1>>, <<5,1>>, <<1,1>>>>}
MCInitials1 == {<<<<1,1>>>>, <<<<0,1>>>>, <<<<5,1>>>>}
MCInitialsAny == [1..NProg -> MCGrid]          \* many programs: initial allocations are sampled from the whole grid
MCTotals == {NoTotal, <<3,1>>, <<6,1>>, <<0,1>>}
MCFactors == {<<1,1>>, <<3,2>>}
MCBoundPairs == {<<<<0,1>>, INF>>, <<<<1,2>>, INF>>, <<<<0,1>>, <<2,1>>>>, <<<<1,1>>, <<1,1>>>>, <<<<1,2>>, <<2,1>>>>, <<<<0,1>>, <<1,2>>>>}
MCBoundPairsSmall == {<<<<0,1>>, INF>>, <<<<1,2>>, INF>>, <<<<1,1>>, <<1,1>>>>, <<<<1,2>>, <<2,1>>>>}
MCNone == {}
====
