---- MODULE PackageTrace ----
(* Direction code -> spec for the spending-package part of C14 (module Package): what SpendingPackageAdjustment.update_instructions and   *)
(* TotalSpendConstraint.get_hard_constraint / constrain_instructions did with each enumerated case.                                         *)
(* record: [id, outcome ("ok" | "failed" | "unresolvable" | "error"), stage1 (update done), stage2 (constrain done), pb, at, mint, maxt, p1, *)
(*          hascon, total, unres, satisfied, lo, hi, x, z1, q1, z2, q2]   (z*, q*: limb-encoded observations; the rest exact rationals)       *)
EXTENDS Rat, Big, TLC, Json, IOUtils, FiniteSets
Trace == JsonDeserialize(IOEnv.TRACE_FILE)
VARIABLES i, bad
INF == <<1000000, 1>>
\* r * S <= z  and  z <= r * S  for an exact rational r and observed S, z (relative tolerance 1e-9 of S)
ShareGe(r, S, z) == SLe(SSub(SMulInt(S, r[1]), SMulInt(z, r[2])), Tol(SMulInt(S, r[2]), K1e9, 64 * r[2]))
ShareLe(r, S, z) == SLe(SSub(SMulInt(z, r[2]), SMulInt(S, r[1])), Tol(SMulInt(S, r[2]), K1e9, 64 * r[2]))
SharesOK(e, z) == LET S == SSumSeq(z) IN \A k \in 1..Len(z) : ShareGe(e.pb[k][1], S, z[k]) /\ ShareLe(e.pb[k][2], S, z[k])
SameSeq(a, b) == \A k \in 1..Len(a) : SClose(a[k], b[k], K1e9, 8)
\* |S + q - total| <= 1e-6 total
GrandOK(e) == LET sum == SAdd(IF e.at THEN SSumSeq(e.z2) ELSE SZero, e.q2)  t == e.total IN
      SLe(SAbs(SSub(SMulInt(sum, t[2]), SFromInt(t[1]))), [s |-> 1, m |-> UAdd(UDrop(UMul(SAbs(SFromInt(t[1])).m, K1e6), 3), UFromInt(64 * t[2]))])
Failing(e) ==
     (IF e.outcome = "error" THEN {"DedicatedSignal"} ELSE {})
\cup (IF e.unres /\ e.outcome # "unresolvable" THEN {"ReportedUpFront"} ELSE {})
\cup (IF e.stage1 /\ ~SharesOK(e, e.z1) THEN {"ShareAfterUpdate"} ELSE {})
\cup (IF e.stage1 /\ ~RatClose(e.p1, SSumSeq(e.z1), K1e9, 8) THEN {"PackageTotalAfterUpdate"} ELSE {})
\cup (IF e.stage2 /\ ~SharesOK(e, e.z2) THEN {"ShareAfterConstraint"} ELSE {})
\cup (IF e.stage2 /\ e.hascon /\ ~GrandOK(e) THEN {"Total"} ELSE {})
\cup (IF e.stage2 /\ e.at /\ ~(RatLeFix(e.mint, SSumSeq(e.z2), K1e9, 8) /\ FixLeRat(SSumSeq(e.z2), e.maxt, K1e9, 8)) THEN {"PackageLimits"} ELSE {})
\cup (IF e.stage2 /\ ~e.at /\ ~SameSeq(e.z1, e.z2) THEN {"PackageOutsideConstraintChanged"} ELSE {})
\cup (IF e.stage2 /\ ~(RatLeFix(e.lo, e.q2, K1e9, 8) /\ (e.hi = INF \/ FixLeRat(e.q2, e.hi, K1e9, 8))) THEN {"Bounds"} ELSE {})
\cup (IF e.stage2 /\ (e.satisfied \/ ~e.hascon) /\ ~(SameSeq(e.z1, e.z2) /\ SClose(e.q1, e.q2, K1e9, 8)) THEN {"Unchanged"} ELSE {})
\cup (IF e.outcome = "failed" /\ e.satisfied THEN {"UnchangedRejected"} ELSE {})
Init == i = 1 /\ bad = {}
Next == /\ i <= Len(Trace)
        /\ bad' = IF Cardinality(bad) > 60 THEN bad ELSE bad \cup {<<Trace[i].id, c>> : c \in Failing(Trace[i])}
        /\ i' = i + 1
Spec == Init /\ [][Next]_<<i, bad>>
Verdict == i > Len(Trace) => bad = {}
Consumed == TLCGet("stats").diameter - 1 = Len(Trace)
====
