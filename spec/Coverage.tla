---- MODULE Coverage ----
(***************************************************************************************************)
(* C11: program coverage is a bounded, monotone function of spending.                               *)
(* Transcription of Program.get_capacity / get_prop_covered and ProgramSet.get_alloc /              *)
(* get_capacities / get_prop_coverage (atomica/programs.py), exact for the unsaturated branch; the   *)
(* saturated branch involves exp() and is specified relationally (bounds and limits only).           *)
(* A case: a spending series with one change (stepped interpolation), unit cost, one-off or          *)
(* continuous, optional capacity constraint (per year or absolute), optional saturation, number      *)
(* eligible, step size, query time, and any subset of overwrites {spending, capacity, coverage}.     *)
(***************************************************************************************************)
EXTENDS Rat, TLC, FiniteSets, Json
CONSTANTS Spends,      \* set of <<s1, s2>>: spending before / from the change year
          Costs, Constraints, Sats, Eligs, Dts, Overwrites
VARIABLES fixed, case, obs
vars == <<fixed, case, obs>>
None == <<-1, 1>>                    \* marker: no constraint / no saturation
NoneP == <<None, None>>              \* marker: no overwrite series
Times == {"before", "at1", "between", "at2", "after"}     \* query time relative to the two points of every series

\* stepped interpolation of a two-point series [(Y1, a), (Y2, b)]: constant before the first point, previous value in between
Stepped(pair, t) == IF t \in {"at2", "after"} THEN pair[2] ELSE pair[1]

Capacity(c) ==  \* people reachable in one step
  LET spend == IF c.ow.spend # NoneP THEN Stepped(c.ow.spend, c.t) ELSE Stepped(c.spend, c.t)
      cap0 == RDiv(IF c.oneoff THEN RMul(spend, c.dt) ELSE spend, c.cost)
      lim == IF c.ctype = "none" THEN None ELSE IF c.ctype = "peryear" THEN RMul(c.cval, c.dt) ELSE c.cval
      capc == IF lim = None THEN cap0 ELSE RMin(lim, cap0)
  IN IF c.ow.cap # NoneP THEN (IF c.oneoff THEN RMul(Stepped(c.ow.cap, c.t), c.dt) ELSE Stepped(c.ow.cap, c.t)) ELSE capc
Unsat(cap, e) == IF RLt(cap, e) THEN RDiv(cap, e) ELSE One
\* coverage when it is a rational function of the inputs; None when the saturation curve (exp) is involved
CovExact(c) == IF c.ow.cov # NoneP THEN RMin(One, IF c.oneoff THEN RMul(Stepped(c.ow.cov, c.t), c.dt) ELSE Stepped(c.ow.cov, c.t))
               ELSE IF c.sat = None THEN Unsat(Capacity(c), c.elig)
               ELSE IF c.elig = Zero THEN RMin(One, c.sat)                       \* limit of the curve: nobody eligible
               ELSE IF Capacity(c) = Zero THEN Zero
               ELSE None
\* upper bounds that always hold (cap/elig, saturation, 1) - the relational part used when CovExact = None
CovUpper(c) == LET x == IF c.elig = Zero THEN One ELSE RMin(One, RDiv(Capacity(c), c.elig)) IN
               IF c.ow.cov # NoneP THEN One ELSE IF c.sat = None THEN x ELSE RMin(x, RMin(One, c.sat))

OwSet == {[spend |-> a, cap |-> b, cov |-> d] : a \in {NoneP} \cup Overwrites.spend, b \in {NoneP} \cup Overwrites.cap, d \in {NoneP} \cup Overwrites.cov}
Init == /\ fixed \in {[oneoff |-> o, ctype |-> ct[1], cval |-> ct[2], sat |-> s, dt |-> d, t |-> t] : o \in BOOLEAN, ct \in Constraints, s \in Sats, d \in Dts, t \in Times}
        /\ case = <<>> /\ obs = ""
Mk(f, sp, co, e, ow) == [oneoff |-> f.oneoff, ctype |-> f.ctype, cval |-> f.cval, sat |-> f.sat, dt |-> f.dt, t |-> f.t, spend |-> sp, cost |-> co, elig |-> e, ow |-> ow]
Pick == /\ case = <<>>
        /\ \E sp \in Spends, co \in Costs, e \in Eligs, ow \in OwSet :
              LET c == Mk(fixed, sp, co, e, ow) IN
              /\ case' = c
              /\ obs' = ToJson([case |-> c, cap |-> Capacity(c), cov |-> CovExact(c), upper |-> CovUpper(c)])
        /\ UNCHANGED fixed
Spec == Init /\ [][Pick]_vars

\* ---- the property on the transcription (P_spec) ----
Has == case # <<>>
NoOw == case.ow = [spend |-> NoneP, cap |-> NoneP, cov |-> NoneP]
Bounded == Has => (CovExact(case) = None \/ (RLe(Zero, CovExact(case)) /\ RLe(CovExact(case), One)))
UpperOK == Has => (CovExact(case) = None \/ RLe(CovExact(case), CovUpper(case)))
\* never above what the constraint allows (no capacity / coverage overwrite)
ConstraintOK == (Has /\ case.ow.cap = NoneP /\ case.ow.cov = NoneP /\ case.ctype # "none" /\ CovExact(case) # None /\ case.elig # Zero) =>
      RLe(RMul(CovExact(case), case.elig), RMax(IF case.ctype = "peryear" THEN RMul(case.cval, case.dt) ELSE case.cval, Zero)) \/ CovExact(case) = One
NobodyEligible == (Has /\ case.elig = Zero /\ case.ow.cov = NoneP) => CovExact(case) = (IF case.sat = None THEN One ELSE RMin(One, case.sat))
\* monotone in spending and in unit cost, everything else fixed (evaluated on the whole grid from this case)
MonoSpend == (Has /\ NoOw) => \A sp \in Spends : RLe(Stepped(case.spend, case.t), Stepped(sp, case.t)) =>
      RLe(Capacity(case), Capacity([case EXCEPT !.spend = sp]))
MonoCost == (Has /\ NoOw) => \A co \in Costs : RLe(co, case.cost) => RLe(Capacity(case), Capacity([case EXCEPT !.cost = co]))
MonoCov == (Has /\ case.sat = None /\ case.ow.cov = NoneP) => \A sp \in Spends :
      RLe(Capacity(case), Capacity([case EXCEPT !.spend = sp])) => RLe(CovExact(case), CovExact([case EXCEPT !.spend = sp]))
\* a one-off program reaches the same number of people per year whatever the step: capacity / dt does not depend on dt
DtIndependent == (Has /\ case.oneoff /\ case.ow.cap = NoneP /\ case.ctype # "abs") => \A d \in Dts :
      RDiv(Capacity(case), case.dt) = RDiv(Capacity([case EXCEPT !.dt = d]), d)
\* precedence coverage > capacity > spending
Precedence == Has =>
      /\ case.ow.cov # NoneP => CovExact(case) = CovExact([case EXCEPT !.ow.cap = NoneP, !.ow.spend = NoneP])
      /\ case.ow.cap # NoneP => Capacity(case) = Capacity([case EXCEPT !.ow.spend = NoneP])
====
