---- MODULE TimeGrid ----
(* C03, second sentence: output times are exactly start + k*dt, ending at the first grid point at or   *)
(* after the requested end year (ProjectSettings.sim_end setter and ProjectSettings.tvec).              *)
(* Exact rational specification; the case generator enumerates (start, end, dt); TimeGridTrace checks   *)
(* the vectors produced by the real ProjectSettings against it.                                          *)
EXTENDS Rat, TLC, Json
CONSTANTS Starts, Dts, Spans
VARIABLES case, obs
vars == <<case, obs>>

NSteps(start, end, dt) == IMax(0, RCeil(RDiv(RSub(end, start), dt)))
T(start, dt, k) == RAdd(start, RMul(RInt(k), dt))
OnGrid(start, end, dt) == LET x == RDiv(RSub(end, start), dt) IN x[2] = 1
RECURSIVE IsPow2(_)
IsPow2(n) == n = 1 \/ (n % 2 = 0 /\ IsPow2(n \div 2))
\* all three inputs are binary fractions: every float operation of the implementation is then exact
Exact(start, end, dt) == IsPow2(start[2]) /\ IsPow2(end[2]) /\ IsPow2(dt[2])
\* number of steps a correct implementation may take: the exact answer; one more only when the end year sits
\* on a grid point that floating point cannot represent (the request is then ambiguous in the last bit)
Allowed(start, end, dt) == LET n == NSteps(start, end, dt) IN
      IF OnGrid(start, end, dt) /\ ~Exact(start, end, dt) THEN {n, n+1} ELSE {n}

Cases == {<<s, RAdd(s, sp), dt>> : s \in Starts, sp \in Spans, dt \in Dts}
Init == case \in Cases /\ obs = ""
Emit == /\ obs = ""
        /\ obs' = ToJson([start |-> case[1], end |-> case[2], dt |-> case[3], n |-> NSteps(case[1], case[2], case[3]),
                          allowed |-> Allowed(case[1], case[2], case[3])])
        /\ UNCHANGED case
Spec == Init /\ [][Emit]_vars

\* the design: the grid ends at the first point at or after the requested end
EndsRight == LET s == case[1] e == case[2] dt == case[3] n == NSteps(s, e, dt) IN
             /\ RLe(e, T(s, dt, n))
             /\ n > 0 => RLt(T(s, dt, n-1), e)
\* asking for an end year that is itself the last grid point changes nothing: the end-year rounding is idempotent, so settings can be
\* saved and restored (calibrate and run_optimization shorten the end year and assign the old value back afterwards)
Fixpoint == LET s == case[1] e == case[2] dt == case[3] n == NSteps(s, e, dt) IN NSteps(s, T(s, dt, n), dt) = n
====
