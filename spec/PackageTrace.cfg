SPECIFICATION Spec
INVARIANT Verdict
POSTCONDITION Consumed
CHECK_DEADLOCK FALSE
