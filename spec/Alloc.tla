---- MODULE Alloc ----
(***************************************************************************************************)
(* C14: constrained allocations meet the total and every bound, or are rejected.                    *)
(* The numerical solver (SLSQP inside constrain_sum_bounded) is specified by its postcondition: for *)
(* every constrained year the outcome is either Ok(z) with |sum z - total| <= 1e-6 total and        *)
(* lb <= z <= ub, or Reject; a proposal that already satisfies the constraints must come back       *)
(* unchanged; constraints that are impossible from the outset must be reported before anything else *)
(* (TotalSpendConstraint.get_hard_constraint).  TLC enumerates cases and checks the feasibility      *)
(* theory on the specification side (Unresolvable <=> no solution; a witness exists otherwise);      *)
(* AllocTrace.tla judges what the real code returned.                                                 *)
(***************************************************************************************************)
EXTENDS Rat, TLC, FiniteSets, Json, Randomization
CONSTANTS NProg, Grid, Initials, Totals, Factors, BoundPairs,
          Sample,         \* 0: every case of the grid; > 0: the proposals / initial allocations / bound vectors below (many programs), drawn by the
          SampX, SampX0, SampB   \* harness with a seeded generator so that a run can be repeated (TLC's RandomSubset is not reproducible)
VARIABLES fixed, case, obs
vars == <<fixed, case, obs>>
Progs == 1..NProg
INF == <<1000000, 1>>                 \* stands for an infinite upper bound (np.inf in the implementation)
NoTotal == <<-1, 1>>                  \* total not given: the sum of the initial allocation is used

SumF(f) == RSumSet(Progs, f)
\* bounds of program i in a year: absolute, or relative to the initial allocation of that year
Lower(c, y, i) == IF c.rel THEN RMul(c.x0[y][i], c.bnd[y][i][1]) ELSE c.bnd[y][i][1]
Upper(c, y, i) == IF c.bnd[y][i][2] = INF THEN INF ELSE IF c.rel THEN RMul(c.x0[y][i], c.bnd[y][i][2]) ELSE c.bnd[y][i][2]
Total(c, y) == RMul(IF c.tot[y] = NoTotal THEN SumF(c.x0[y]) ELSE c.tot[y], c.factor)
SumLower(c, y) == SumF([i \in Progs |-> Lower(c, y, i)])
SumUpper(c, y) == SumF([i \in Progs |-> Upper(c, y, i)])
Unresolvable(c, y) == RLt(Total(c, y), SumLower(c, y)) \/ RLt(SumUpper(c, y), Total(c, y))
Satisfies(c, y, z) == SumF(z) = Total(c, y) /\ \A i \in Progs : RLe(Lower(c, y, i), z[i]) /\ RLe(z[i], Upper(c, y, i))
\* a solution when the year is resolvable: start from the lower bounds and share the rest in proportion to the room available
Witness(c, y) == LET t == Total(c, y)
                     cap == [i \in Progs |-> RMin(Upper(c, y, i), RMax(t, Lower(c, y, i)))]
                     room == SumF([i \in Progs |-> RSub(cap[i], Lower(c, y, i))])
                     need == RSub(t, SumLower(c, y))
                 IN [i \in Progs |-> IF room = Zero THEN Lower(c, y, i) ELSE RAdd(Lower(c, y, i), RMul(RSub(cap[i], Lower(c, y, i)), RDiv(need, room)))]
Years(c) == 1..Len(c.x)

\* second year of a two-year case: a deterministic variation of the first (programs' bounds reversed, proposal rotated,
\* other total) so that the years really differ
Rev(s) == [i \in Progs |-> s[NProg + 1 - i]]
Rot(s) == [i \in Progs |-> s[(i % NProg) + 1]]
Mk(f, x, x0, b) == [rel |-> f.rel, factor |-> f.factor,
                    x |-> IF f.years = 1 THEN <<x>> ELSE <<x, Rot(x)>>,
                    x0 |-> IF f.years = 1 THEN <<x0>> ELSE <<x0, Rev(x0)>>,
                    tot |-> IF f.years = 1 THEN <<f.tot>> ELSE <<f.tot, IF f.tot = NoTotal THEN <<3, 1>> ELSE NoTotal>>,
                    bnd |-> IF f.years = 1 THEN <<b>> ELSE <<b, Rev(b)>>]
Init == /\ fixed \in {[rel |-> r, factor |-> fa, tot |-> t, years |-> ys] : r \in BOOLEAN, fa \in Factors, t \in Totals, ys \in {1, 2}}
        /\ case = <<>> /\ obs = ""
Pick == /\ case = <<>>
        /\ \E x \in (IF Sample = 0 THEN [Progs -> Grid] ELSE SampX), x0 \in (IF Sample = 0 THEN Initials ELSE SampX0), b \in (IF Sample = 0 THEN [Progs -> BoundPairs] ELSE SampB) :
              LET c == Mk(fixed, x, x0, b) IN
              /\ case' = c
              /\ obs' = ToJson([case |-> c, n |-> NProg,
                                year |-> [y \in Years(c) |-> [total |-> Total(c, y), lower |-> [i \in Progs |-> Lower(c, y, i)], upper |-> [i \in Progs |-> Upper(c, y, i)],
                                                             unresolvable |-> Unresolvable(c, y), satisfied |-> Satisfies(c, y, c.x[y])]]])
        /\ UNCHANGED fixed
Spec == Init /\ [][Pick]_vars

\* ---- feasibility theory (P_spec) ----
Has == case # <<>>
\* impossible from the outset => really no allocation exists (checked over the proposal grid)
UnresolvableSound == (Has /\ Sample = 0) => \A y \in Years(case) : Unresolvable(case, y) => \A z \in [Progs -> Grid] : ~Satisfies(case, y, z)
\* otherwise an allocation exists, so rejecting is never forced by the constraints themselves
WitnessOK == Has => \A y \in Years(case) : ~Unresolvable(case, y) => Satisfies(case, y, Witness(case, y))
====
