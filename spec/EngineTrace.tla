---- MODULE EngineTrace ----
(***************************************************************************************************)
(* Direction code -> spec for the engine: recorded executions of the real Model (one "step" record  *)
(* per time index, written by harness/observe.py after update_links / update_comps) are checked     *)
(* against the relations of Engine.tla, evaluated on the *observed* numbers (IEEE doubles shipped    *)
(* exactly as limb sequences, module Big) from the *logged* predecessor state, so nothing has to be *)
(* carried exactly across steps and any real run (library models, float worlds) can be validated.   *)
(*                                                                                                   *)
(* Every clause is a named predicate of one property (P_obs).  The harness enables the clauses of    *)
(* the property being checked through the constant ClauseSet; a record that falsifies an   *)
(* enabled clause adds <<ti, clause, index>> to `bad`, and Verdict fails in the last state.          *)
(*                                                                                                   *)
(* header:  [id, dt, kind, rows, dur, lsrc, ldst, lpar, ltimed, lflush, units, tscale]              *)
(* step:    [ti, pv, st, fl, nx, ca, outc, nonfinite, first]                                         *)
(***************************************************************************************************)
EXTENDS Big, TLC, Json, IOUtils, FiniteSets, FiniteSetsExt
Trace == ndJsonDeserialize(IOEnv.TRACE_FILE)
H == Trace[1]
CONSTANT ClauseSet          \* names of the enabled clauses (set in the generated cfg)
VARIABLES i, bad

NC == Len(H.kind)
NL == Len(H.lsrc)
NP == Len(H.units)
Outl(c) == {l \in 1..NL : H.lsrc[l] = c}
Inl(c) == {l \in 1..NL : H.ldst[l] = c}
IsJ(c) == H.kind[c] \in {"junction","resjunction"}
Tot(rows) == SSumSeq(rows)
BSum(S, f) == FoldSet(LAMBDA x, acc : SAdd(f[x], acc), SZero, S)
InF(e,c) == LET ls == Inl(c) IN BSum(ls, [l \in ls |-> Tot(e.fl[l])])
OutF(e,c) == LET ls == Outl(c) IN BSum(ls, [l \in ls |-> Tot(e.fl[l])])
RowAt(f, r) == IF r <= Len(f) THEN f[r] ELSE SZero
NTerms(c) == Cardinality(Inl(c)) + Cardinality(Outl(c)) + 4

\* relative closeness of two numbers at any common scale: |a-b| <= K/2^45 * max(|a|,|b|) + slack units
RelClose(a, b, Kc, slack) == SLe(SAbs(SSub(a,b)), [s |-> 1, m |-> UAdd(UDrop(UMul(SMax(SAbs(a), SAbs(b)).m, Kc), 3), slack)])
PSlack(x, y) == UAdd(UAdd(x.m, y.m), <<64>>)      \* quantisation slack of a product of two scale-2^60 numbers

\* ---------------------------------------------------------------------------------------------- C01
Balance(e) == {<<e.ti, "Balance", c>> : c \in {c \in 1..NC : H.kind[c] \in {"normal","sink","timed"} /\
      ~SClose(Tot(e.nx[c]), SSub(SAdd(Tot(e.st[c]), InF(e,c)), OutF(e,c)), K1e9, NTerms(c) + Len(e.st[c]))}}
JunctionPass(e) == {<<e.ti, "JunctionPass", c>> : c \in {c \in 1..NC : IsJ(c) /\ ~SClose(OutF(e,c), InF(e,c), K1e9, NTerms(c))}}
NonSource == {c \in 1..NC : H.kind[c] # "source"}
People(st) == BSum(NonSource, [c \in NonSource |-> Tot(st[c])])
SrcOut(e) == LET ls == {l \in 1..NL : H.kind[H.lsrc[l]] = "source"} IN BSum(ls, [l \in ls |-> Tot(e.fl[l])])
Global(e) == IF SClose(People(e.nx), SAdd(People(e.st), SrcOut(e)), K1e9, 4 * (NC + NL)) THEN {} ELSE {<<e.ti, "Global", 0>>}

\* ---------------------------------------------------------------------------------------------- C02
NonNeg(e) == {<<e.ti, "NonNeg", c>> : c \in {c \in 1..NC : \E r \in 1..Len(e.nx[c]) : ~SNonNeg(e.nx[c][r])}}
             \cup {<<e.ti, "NonNegFlow", l>> : l \in {l \in 1..NL : \E r \in 1..Len(e.fl[l]) : ~SNonNeg(e.fl[l][r])}}
Finite(e) == {<<e.ti, "Finite", k>> : k \in 1..Len(e.nonfinite)}
NoOverdraw(e) == {<<e.ti, "NoOverdraw", c>> : c \in {c \in 1..NC : H.kind[c] \in {"normal","timed"} /\
      ~SLe(OutF(e,c), SAdd(Tot(e.st[c]), Tol(Tot(e.st[c]), K1e9, NTerms(c))))}}
\* competing outflows of an ordinary compartment keep the ratios of their per-step fractions
Ratio(e) == {<<e.ti, "Ratio", c>> : c \in {c \in 1..NC : H.kind[c] = "normal" /\
      \E l1, l2 \in Outl(c) : l1 < l2 /\ e.ca[l1].s >= 0 /\ e.ca[l2].s >= 0 /\
         ~RelClose(SMul(e.fl[l1][1], e.ca[l2]), SMul(e.fl[l2][1], e.ca[l1]), K1e9, PSlack(SAdd(e.fl[l1][1], e.fl[l2][1]), SAdd(e.ca[l1], e.ca[l2])))}}
NegZero(e) == {<<e.ti, "NegZero", l>> : l \in {l \in 1..NL : H.lpar[l] > 0 /\ ~H.lflush[l] /\ ~IsJ(H.lsrc[l]) /\ e.pv[H.lpar[l]].s < 0 /\ Tot(e.fl[l]).s # 0}}

\* ---------------------------------------------------------------------------------------------- C03
\* documented unit conversion in multiplied-out form (no division): e.ca[l] is the per-step fraction (or amount)
ParLinks(p) == {l \in 1..NL : H.lpar[l] = p /\ ~H.lflush[l]}
ConvOK(e, l) == LET p == H.lpar[l]  v == e.pv[p]  u == H.units[p]  T == H.tscale[p]  ca == e.ca[l] IN
   IF v.s <= 0 THEN ca.s = 0
   ELSE IF u \in {"probability","rate"} THEN RelClose(SMul(ca, T), SMul(v, H.dt), K1e8, PSlack(SAdd(ca, v), SAdd(T, H.dt)))
   ELSE IF u = "duration" THEN RelClose(SRescale(SMul(SRescale(SMul(ca, v)), T)), H.dt, K1e8, <<64>>)
   ELSE IF u = "number" THEN
        IF H.kind[H.lsrc[l]] = "source" THEN RelClose(SMul(ca, T), SMul(v, H.dt), K1e8, PSlack(SAdd(ca, v), SAdd(T, H.dt)))
        ELSE LET ls == ParLinks(p)  pop == BSum(ls, [k \in ls |-> Tot(e.st[H.lsrc[k]])]) IN
             IF pop.s = 0 THEN ca.s = 0
             ELSE RelClose(SMul(SRescale(SMul(ca, pop)), T), SMul(v, H.dt), K1e8, PSlack(SAdd(SAdd(ca, pop), v), SAdd(T, H.dt)))
   ELSE TRUE
ConvertRel(e) == {<<e.ti, "ConvertRel", l>> : l \in {l \in 1..NL : H.lpar[l] > 0 /\ ~H.lflush[l] /\ ~IsJ(H.lsrc[l]) /\ ~ConvOK(e, l)}}
\* flow * max(1, sum of fractions) = fraction * stock   (ordinary compartments; sources emit the amount itself)
ResolveRel(e) == {<<e.ti, "ResolveRel", l>> : l \in {l \in 1..NL : ~H.lflush[l] /\
      LET c == H.lsrc[l] IN
      IF H.kind[c] = "source" THEN ~SClose(e.fl[l][1], e.ca[l], K1e8, 4)
      ELSE IF H.kind[c] = "normal" THEN
           LET ls == Outl(c)  S == BSum(ls, [k \in ls |-> e.ca[k]])  M == SMax(S, SOne)
           IN ~RelClose(SMul(e.fl[l][1], M), SMul(e.ca[l], e.st[c][1]), K1e8, PSlack(SAdd(e.fl[l][1], M), SAdd(e.ca[l], e.st[c][1])))
      ELSE FALSE}}

\* ---------------------------------------------------------------------------------------------- C04
JEmpty(e) == {<<e.ti, "JEmpty", c>> : c \in {c \in 1..NC : IsJ(c) /\ (Tot(e.nx[c]).s # 0 \/ Tot(e.st[c]).s # 0)}}
JSplitOK(e, j) == LET outs == Outl(j)
                      fr == [l \in outs |-> IF H.lpar[l] = 0 THEN SZero ELSE e.pv[H.lpar[l]]]
                      tot == BSum(outs, fr)
                      inflow == InF(e, j)
                  IN \A l \in outs :
                     IF H.kind[j] = "junction" THEN RelClose(SMul(Tot(e.fl[l]), tot), SMul(inflow, fr[l]), K1e9, PSlack(SAdd(Tot(e.fl[l]), inflow), SAdd(tot, fr[l])))
                     ELSE IF H.lpar[l] = 0
                          THEN RelClose(SMul(Tot(e.fl[l]), SOne), SMul(inflow, SMax(SZero, SSub(SOne, tot))), K1e9, PSlack(SAdd(Tot(e.fl[l]), inflow), SAdd(SOne, tot)))
                          ELSE RelClose(SMul(Tot(e.fl[l]), SMax(SOne, tot)), SMul(inflow, fr[l]), K1e9, PSlack(SAdd(Tot(e.fl[l]), inflow), SAdd(SMax(SOne, tot), fr[l])))
JSplit(e) == {<<e.ti, "JSplit", j>> : j \in {j \in 1..NC : IsJ(j) /\ InF(e, j).s > 0 /\ ~JSplitOK(e, j)}}

\* ---------------------------------------------------------------------------------------------- C05
\* n rows is right for duration D when (n-1)*dt < D <= n*dt up to rounding (rtol 1e-9), or n = 1 and D <= dt
RowsOK(c) == LET n == H.rows[c]  D == H.dur[c]  tol == Tol(D, K1e9, 4) IN
             /\ SLe(D, SAdd(SMulInt(H.dt, n), tol))
             /\ (n > 1 => SLt(SSub(SMulInt(H.dt, n - 1), tol), D))
Rows(e) == IF e.first THEN {<<e.ti, "Rows", c>> : c \in {c \in 1..NC : H.kind[c] = "timed" /\ (Len(e.st[c]) # H.rows[c] \/ ~RowsOK(c))}} ELSE {}
\* shift: next row r = row r+1 - its outflow + duration-preserving arrivals; other arrivals into the last row
TimedIn(e, c, r) == LET n == Len(e.st[c])  tin == {l \in Inl(c) : H.ltimed[l]} IN
      BSum(tin, [l \in tin |-> SAdd(RowAt(e.fl[l], r), IF r = n /\ Len(e.fl[l]) > n THEN SSumSeq(SubSeq(e.fl[l], n+1, Len(e.fl[l]))) ELSE SZero)])
OtherIn(e, c) == LET oin == {l \in Inl(c) : ~H.ltimed[l]} IN BSum(oin, [l \in oin |-> Tot(e.fl[l])])
ShiftOK(e, c) == LET n == Len(e.st[c])
                     tmp == [r \in 1..n |-> SAdd(SSub(e.st[c][r], e.outc[c][r]), TimedIn(e, c, r))]
                 IN \A r \in 1..n :
                     LET expect == IF n = 1 THEN SAdd(tmp[1], OtherIn(e, c))
                                   ELSE IF r < n THEN tmp[r+1] ELSE OtherIn(e, c)
                     IN SClose(e.nx[c][r], SMax(expect, SZero), K1e9, NTerms(c) + 4)
ShiftRel(e) == {<<e.ti, "ShiftRel", c>> : c \in {c \in 1..NC : H.kind[c] = "timed" /\ ~ShiftOK(e, c)}}
\* everybody in row 1 leaves in this step (timed outflow = row 1 minus its other outflows), and the
\* per-row outflows add up to the recorded link flows
FlushAll(e) == {<<e.ti, "FlushAll", c>> : c \in {c \in 1..NC : H.kind[c] = "timed" /\
      (~SClose(e.outc[c][1], e.st[c][1], K1e9, 8) \/ ~SClose(SSumSeq(e.outc[c]), OutF(e, c), K1e9, NTerms(c) + Len(e.st[c])))}}

Failing(e) ==
  LET on(n) == n \in ClauseSet IN
  (IF on("Balance") THEN Balance(e) ELSE {}) \cup (IF on("JunctionPass") THEN JunctionPass(e) ELSE {}) \cup (IF on("Global") THEN Global(e) ELSE {})
  \cup (IF on("NonNeg") THEN NonNeg(e) ELSE {}) \cup (IF on("Finite") THEN Finite(e) ELSE {}) \cup (IF on("NoOverdraw") THEN NoOverdraw(e) ELSE {})
  \cup (IF on("Ratio") THEN Ratio(e) ELSE {}) \cup (IF on("NegZero") THEN NegZero(e) ELSE {})
  \cup (IF on("ConvertRel") THEN ConvertRel(e) ELSE {}) \cup (IF on("ResolveRel") THEN ResolveRel(e) ELSE {})
  \cup (IF on("JEmpty") THEN JEmpty(e) ELSE {}) \cup (IF on("JSplit") THEN JSplit(e) ELSE {})
  \cup (IF on("Rows") THEN Rows(e) ELSE {}) \cup (IF on("ShiftRel") THEN ShiftRel(e) ELSE {}) \cup (IF on("FlushAll") THEN FlushAll(e) ELSE {})

Init == i = 2 /\ bad = {}
Next == /\ i <= Len(Trace)
        /\ bad' = IF Cardinality(bad) > 20 THEN bad ELSE bad \cup Failing(Trace[i])
        /\ i' = i + 1
Spec == Init /\ [][Next]_<<i, bad>>
Verdict == i > Len(Trace) => bad = {}
Consumed == TLCGet("stats").diameter = Len(Trace)
====
