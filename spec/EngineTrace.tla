---- MODULE EngineTrace ----
(***************************************************************************************************)
(* Direction code -> spec for the engine: recorded executions of the real Model (one "step" record  *)
(* per time index, written by harness/observe.py after update_links / update_comps) are checked     *)
(* against the relations of Engine.tla, evaluated on the *observed* numbers (IEEE doubles shipped    *)
(* exactly as limb sequences, module Big) from the *logged* predecessor state, so nothing has to be *)
(* carried exactly across steps and any real run (library models, float worlds) can be validated.   *)
(*                                                                                                   *)
(* Every clause is a named predicate of one property (P_obs).  The harness enables the clauses of    *)
(* the property being checked through the constant ClauseSet; a record that falsifies an   *)
(* enabled clause adds <<ti, clause, index>> to `bad`, and Verdict fails in the last state.          *)
(*                                                                                                   *)
(* header:  [id, dt, kind, rows, dur, lsrc, ldst, lpar, ltimed, lflush, units, tscale]              *)
(* step:    [ti, pv, st, fl, nx, ca, outc, nonfinite, first, init, dbtot, dbhas]                                         *)
(***************************************************************************************************)
EXTENDS Big, TLC, Json, IOUtils, FiniteSets, FiniteSetsExt
Trace == ndJsonDeserialize(IOEnv.TRACE_FILE)
H == Trace[1]
CONSTANT ClauseSet          \* names of the enabled clauses (set in the generated cfg)
VARIABLES i, bad,
          win,     \* per duration group: arrivals of the most recent steps of the current run (newest last)
          age,     \* steps since the current run started
          ini      \* rows of the timed compartments at the start of the current run

NC == Len(H.kind)
NL == Len(H.lsrc)
NP == Len(H.units)
Outl(c) == {l \in 1..NL : H.lsrc[l] = c}
Inl(c) == {l \in 1..NL : H.ldst[l] = c}
IsJ(c) == H.kind[c] \in {"junction","resjunction"}
Tot(rows) == SSumSeq(rows)
BSum(S, f) == FoldSet(LAMBDA x, acc : SAdd(f[x], acc), SZero, S)
InF(e,c) == LET ls == Inl(c) IN BSum(ls, [l \in ls |-> Tot(e.fl[l])])
OutF(e,c) == LET ls == Outl(c) IN BSum(ls, [l \in ls |-> Tot(e.fl[l])])
RowAt(f, r) == IF r <= Len(f) THEN f[r] ELSE SZero
NTerms(c) == Cardinality(Inl(c)) + Cardinality(Outl(c)) + 4

\* relative closeness of two numbers at any common scale: |a-b| <= K/2^45 * max(|a|,|b|) + slack units
RelClose(a, b, Kc, slack) == SLe(SAbs(SSub(a,b)), [s |-> 1, m |-> UAdd(UDrop(UMul(SMax(SAbs(a), SAbs(b)).m, Kc), 3), slack)])
PSlack(x, y) == UAdd(UAdd(x.m, y.m), <<64>>)      \* quantisation slack of a product of two scale-2^60 numbers

\* ---------------------------------------------------------------------------------------------- C01
Balance(e) == {<<e.ti, "Balance", c>> : c \in {c \in 1..NC : H.kind[c] \in {"normal","sink","timed"} /\
      ~SClose(Tot(e.nx[c]), SSub(SAdd(Tot(e.st[c]), InF(e,c)), OutF(e,c)), K1e9, NTerms(c) + Len(e.st[c]))}}
JunctionPass(e) == {<<e.ti, "JunctionPass", c>> : c \in {c \in 1..NC : IsJ(c) /\ ~SClose(OutF(e,c), InF(e,c), K1e9, NTerms(c))}}
NonSource == {c \in 1..NC : H.kind[c] # "source"}
People(st) == BSum(NonSource, [c \in NonSource |-> Tot(st[c])])
SrcOut(e) == LET ls == {l \in 1..NL : H.kind[H.lsrc[l]] = "source"} IN BSum(ls, [l \in ls |-> Tot(e.fl[l])])
Global(e) == IF SClose(People(e.nx), SAdd(People(e.st), SrcOut(e)), K1e9, 4 * (NC + NL)) THEN {} ELSE {<<e.ti, "Global", 0>>}

\* ---------------------------------------------------------------------------------------------- C02
NonNeg(e) == {<<e.ti, "NonNeg", c>> : c \in {c \in 1..NC : \E r \in 1..Len(e.nx[c]) : ~SNonNeg(e.nx[c][r])}}
             \cup {<<e.ti, "NonNegFlow", l>> : l \in {l \in 1..NL : \E r \in 1..Len(e.fl[l]) : ~SNonNeg(e.fl[l][r])}}
Finite(e) == {<<e.ti, "Finite", k>> : k \in 1..Len(e.nonfinite)}
NoOverdraw(e) == {<<e.ti, "NoOverdraw", c>> : c \in {c \in 1..NC : H.kind[c] \in {"normal","timed"} /\
      ~SLe(OutF(e,c), SAdd(Tot(e.st[c]), Tol(Tot(e.st[c]), K1e9, NTerms(c))))}}
   \* the people present in a junction during a step are those who entered it in that step (plus anything it held): it cannot hand out more
   \cup {<<e.ti, "NoOverdraw", c>> : c \in {c \in 1..NC : IsJ(c) /\
      ~SLe(OutF(e,c), SAdd(SAdd(Tot(e.st[c]), InF(e,c)), Tol(SAdd(Tot(e.st[c]), InF(e,c)), K1e9, NTerms(c))))}}
\* competing outflows of an ordinary compartment keep the ratios of the *documented requests* (C03's conversion of the
\* parameter values, as a fraction num/den so that no division is needed):  flow1 * req2 = flow2 * req1
Req(e, l) == LET p == H.lpar[l]  v == e.pv[p]  u == H.units[p]  T == H.tscale[p] IN
   IF v.s <= 0 THEN <<SZero, SOne>>
   ELSE IF u \in {"probability","rate"} THEN <<SRescale(SMul(v, H.dt)), T>>
   ELSE IF u = "duration" THEN <<H.dt, SRescale(SMul(v, T))>>
   ELSE IF u = "number" THEN LET ls == {k \in 1..NL : H.lpar[k] = p /\ ~H.lflush[k]}
                                 pop == BSum(ls, [k \in ls |-> Tot(e.st[H.lsrc[k]])])
                             IN IF pop.s = 0 THEN <<SZero, SOne>> ELSE <<SRescale(SMul(v, H.dt)), SRescale(SMul(T, pop))>>
   ELSE <<SZero, SOne>>
Slack3(a, b, c) == UAdd(UAdd(UAdd(UMul(a.m, b.m), UMul(a.m, c.m)), UMul(b.m, c.m)), <<64>>)
RatioOK(e, l1, l2) == LET r1 == Req(e, l1)  r2 == Req(e, l2)
                          f1 == e.fl[l1][1]  f2 == e.fl[l2][1]
                          lhs == SMul(SMul(f1, r2[1]), r1[2])
                          rhs == SMul(SMul(f2, r1[1]), r2[2])
                      IN RelClose(lhs, rhs, K1e8, UAdd(Slack3(f1, r2[1], r1[2]), Slack3(f2, r1[1], r2[2])))
Ratio(e) == {<<e.ti, "Ratio", c>> : c \in {c \in 1..NC : H.kind[c] = "normal" /\
      \E l1, l2 \in {l \in Outl(c) : H.lpar[l] > 0} : l1 < l2 /\ ~RatioOK(e, l1, l2)}}
NegZero(e) == {<<e.ti, "NegZero", l>> : l \in {l \in 1..NL : H.lpar[l] > 0 /\ ~H.lflush[l] /\ e.pv[H.lpar[l]].s < 0 /\ Tot(e.fl[l]).s # 0}}

\* ---------------------------------------------------------------------------------------------- C03
\* documented unit conversion in multiplied-out form (no division): e.ca[l] is the per-step fraction (or amount)
ParLinks(p) == {l \in 1..NL : H.lpar[l] = p /\ ~H.lflush[l]}
\* (a source population of a number parameter below 2^-30 people - under the property's absolute tolerance of 1e-9; observations are
\* quantised to 2^-60, so a residue like 1e-23 and the amount requested from it are both recorded as 0 although their ratio is an ordinary
\* fraction - is not judged here: the flow it produces is still judged by ResolveRel / NoOverdraw / NonNeg)
TinyPop == [s |-> 1, m |-> <<0, 0, 1>>]
NumPop(e, p) == LET ls == ParLinks(p) IN BSum(ls, [k \in ls |-> Tot(e.st[H.lsrc[k]])])
ConvOK(e, l) == LET p == H.lpar[l]  v == e.pv[p]  u == H.units[p]  T == H.tscale[p]  ca == e.ca[l] IN
   IF u = "number" /\ H.kind[H.lsrc[l]] # "source" /\ SLt(NumPop(e, p), TinyPop) THEN TRUE
   ELSE IF v.s <= 0 THEN ca.s = 0
   ELSE IF u \in {"probability","rate"} THEN RelClose(SMul(ca, T), SMul(v, H.dt), K1e8, PSlack(SAdd(ca, v), SAdd(T, H.dt)))
   ELSE IF u = "duration" THEN RelClose(SRescale(SMul(SRescale(SMul(ca, v)), T)), H.dt, K1e8, <<64>>)
   ELSE IF u = "number" THEN
        IF H.kind[H.lsrc[l]] = "source" THEN RelClose(SMul(ca, T), SMul(v, H.dt), K1e8, PSlack(SAdd(ca, v), SAdd(T, H.dt)))
        ELSE LET pop == NumPop(e, p) IN
             RelClose(SMul(SRescale(SMul(ca, pop)), T), SMul(v, H.dt), K1e8, PSlack(SAdd(SAdd(ca, pop), v), SAdd(T, H.dt)))
   ELSE TRUE
ConvertRel(e) == {<<e.ti, "ConvertRel", l>> : l \in {l \in 1..NL : H.lpar[l] > 0 /\ ~H.lflush[l] /\ ~IsJ(H.lsrc[l]) /\ ~ConvOK(e, l)}}
\* flow * max(1, sum of fractions) = fraction * stock   (ordinary compartments; sources emit the amount itself)
ResolveRel(e) == {<<e.ti, "ResolveRel", l>> : l \in {l \in 1..NL : ~H.lflush[l] /\
      LET c == H.lsrc[l] IN
      IF H.kind[c] = "source" THEN ~SClose(e.fl[l][1], e.ca[l], K1e8, 4)
      ELSE IF H.kind[c] = "normal" THEN
           LET ls == Outl(c)  S == BSum(ls, [k \in ls |-> e.ca[k]])  M == SMax(S, SOne)
           IN ~RelClose(SMul(e.fl[l][1], M), SMul(e.ca[l], e.st[c][1]), K1e8, PSlack(SAdd(e.fl[l][1], M), SAdd(e.ca[l], e.st[c][1])))
      ELSE FALSE}}

\* ---------------------------------------------------------------------------------------------- C04
JEmpty(e) == {<<e.ti, "JEmpty", c>> : c \in {c \in 1..NC : IsJ(c) /\ (Tot(e.nx[c]).s # 0 \/ Tot(e.st[c]).s # 0)}}
\* (each of the sums in JSplit adds up to MaxRows quantised elapsed-time bins per link: the quantisation slack grows with the number of terms)
MaxRows == CHOOSE n \in {H.rows[c] : c \in 1..NC} : \A c \in 1..NC : H.rows[c] <= n
JSlack(j, s) == UMul(s, UFromInt(4 + 2 * (Cardinality(Inl(j)) + 1) * MaxRows))
JSplitOK(e, j) == LET outs == Outl(j)
                      fr == [l \in outs |-> IF H.lpar[l] = 0 THEN SZero ELSE SMax(SZero, e.pv[H.lpar[l]])]      \* a negative proportion moves nobody
                      tot == BSum(outs, fr)
                      inflow == InF(e, j)
                  IN \A l \in outs :
                     IF H.kind[j] = "junction" THEN RelClose(SMul(Tot(e.fl[l]), tot), SMul(inflow, fr[l]), K1e9, JSlack(j, PSlack(SAdd(Tot(e.fl[l]), inflow), SAdd(tot, fr[l]))))
                     ELSE IF H.lpar[l] = 0
                          THEN RelClose(SMul(Tot(e.fl[l]), SOne), SMul(inflow, SMax(SZero, SSub(SOne, tot))), K1e9, JSlack(j, PSlack(SAdd(Tot(e.fl[l]), inflow), SAdd(SOne, tot))))
                          ELSE RelClose(SMul(Tot(e.fl[l]), SMax(SOne, tot)), SMul(inflow, fr[l]), K1e9, JSlack(j, PSlack(SAdd(Tot(e.fl[l]), inflow), SAdd(SMax(SOne, tot), fr[l]))))
JSplit(e) == {<<e.ti, "JSplit", j>> : j \in {j \in 1..NC : IsJ(j) /\ InF(e, j).s > 0 /\ ~JSplitOK(e, j)}}

\* the start-up flush moves the initial content of junctions downstream: nobody is created or lost (init = state injected
\* before the flush, logged with the first step of a run; st = state at index 0 after the flush)
FlushConserves(e) == IF e.init = <<>> THEN {} ELSE
      IF SClose(People(e.st), People(e.init), K1e9, 4 * NC) THEN {} ELSE {<<e.ti, "FlushConserves", 0>>}

\* ---------------------------------------------------------------------------------------------- C05
\* n rows is right for duration D when (n-1)*dt < D <= n*dt up to rounding (rtol 1e-9), or n = 1 and D <= dt
RowsOK(c) == LET n == H.rows[c]  D == H.dur[c]  tol == Tol(D, K1e9, 4) IN
             /\ SLe(D, SAdd(SMulInt(H.dt, n), tol))
             /\ (n > 1 => SLt(SSub(SMulInt(H.dt, n - 1), tol), D))
Rows(e) == IF e.first THEN {<<e.ti, "Rows", c>> : c \in {c \in 1..NC : H.kind[c] = "timed" /\ (Len(e.st[c]) # H.rows[c] \/ ~RowsOK(c))}} ELSE {}
\* a timed compartment initialised from the databook spreads its people uniformly over its n elapsed-time bins: n x (each bin) = the databook total
\* (dbtot / dbhas: per compartment, given by the harness for databook-initialised runs only)
InitSpread(e) == IF e.dbhas = <<>> \/ ~e.first THEN {} ELSE
      {<<e.ti, "InitSpread", c>> : c \in {c \in 1..NC : H.kind[c] = "timed" /\ e.dbhas[c] /\
            \E r \in 1..Len(e.st[c]) : ~SClose(SMulInt(e.st[c][r], Len(e.st[c])), e.dbtot[c], K1e9, 64 * Len(e.st[c]))}}
\* shift: next row r = row r+1 - its outflow + duration-preserving arrivals; other arrivals into the last row
TimedIn(e, c, r) == LET n == Len(e.st[c])  tin == {l \in Inl(c) : H.ltimed[l]} IN
      BSum(tin, [l \in tin |-> SAdd(RowAt(e.fl[l], r), IF r = n /\ Len(e.fl[l]) > n THEN SSumSeq(SubSeq(e.fl[l], n+1, Len(e.fl[l]))) ELSE SZero)])
OtherIn(e, c) == LET oin == {l \in Inl(c) : ~H.ltimed[l]} IN BSum(oin, [l \in oin |-> Tot(e.fl[l])])
ShiftOK(e, c) == LET n == Len(e.st[c])
                     tmp == [r \in 1..n |-> SAdd(SSub(e.st[c][r], e.outc[c][r]), TimedIn(e, c, r))]
                 IN \A r \in 1..n :
                     LET expect == IF n = 1 THEN SAdd(tmp[1], OtherIn(e, c))
                                   ELSE IF r < n THEN tmp[r+1] ELSE OtherIn(e, c)
                     IN SClose(e.nx[c][r], SMax(expect, SZero), K1e9, NTerms(c) + 4)
ShiftRel(e) == {<<e.ti, "ShiftRel", c>> : c \in {c \in 1..NC : H.kind[c] = "timed" /\ ~ShiftOK(e, c)}}
\* everybody in row 1 leaves in this step (timed outflow = row 1 minus its other outflows), and the
\* per-row outflows add up to the recorded link flows
FlushAll(e) == {<<e.ti, "FlushAll", c>> : c \in {c \in 1..NC : H.kind[c] = "timed" /\
      (~SClose(e.outc[c][1], e.st[c][1], K1e9, 8) \/ ~SClose(SSumSeq(e.outc[c]), OutF(e, c), K1e9, NTerms(c) + Len(e.st[c])))}}

\* ---- history clauses (C05): occupancy bound and never-early release over the steps of one run -----------------
Groups == {H.grp[c] : c \in 1..NC} \ {0}
Group(g) == {c \in 1..NC : H.grp[c] = g}
GN(g) == LET c == CHOOSE c \in Group(g) : H.kind[c] = "timed" IN H.rows[c]
Arrivals(e, g) == LET ls == {l \in 1..NL : H.ldst[l] \in Group(g) /\ ~H.ltimed[l]} IN BSum(ls, [l \in ls |-> Tot(e.fl[l])])
FlushedG(e, g) == LET ls == {l \in 1..NL : H.lsrc[l] \in Group(g) /\ H.lflush[l]} IN BSum(ls, [l \in ls |-> Tot(e.fl[l])])
OccupancyG(st, g) == LET cs == Group(g) IN BSum(cs, [c \in cs |-> Tot(st[c])])
LastN(s, n) == IF Len(s) <= n THEN s ELSE SubSeq(s, Len(s) - n + 1, Len(s))
IniRowsFrom(st0, g, t) == LET cs == {c \in Group(g) : H.kind[c] = "timed"} IN
      BSum(cs, [c \in cs |-> SSumSeq([r \in 1..Len(st0[c]) |-> IF r > t THEN st0[c][r] ELSE SZero])])
IniRow(st0, g, u) == LET cs == {c \in Group(g) : H.kind[c] = "timed"} IN
      BSum(cs, [c \in cs |-> IF u <= Len(st0[c]) THEN st0[c][u] ELSE SZero])
\* evaluated with w = window including this step's arrivals, t = number of steps of the run including this one
BoundF(e, w, t, st0) == {<<e.ti, "Bound", g>> : g \in {g \in Groups :
      LET lim == SAdd(SSumSeq(LastN(w[g], GN(g))), IniRowsFrom(st0, g, t))
      IN ~SLe(OccupancyG(e.nx, g), SAdd(lim, Tol(lim, K1e9, 64)))}}
\* what is flushed in the u-th step of a run is at most initial row u (u <= n) plus the arrivals of step u-n
NotEarlyF(e, wprev, t, st0) == {<<e.ti, "NotEarly", g>> : g \in {g \in Groups :
      LET n == GN(g)
          lim == SAdd(IF t <= n THEN IniRow(st0, g, t) ELSE SZero, IF t > n /\ Len(wprev[g]) >= n THEN wprev[g][Len(wprev[g]) - n + 1] ELSE SZero)
      IN ~SLe(FlushedG(e, g), SAdd(lim, Tol(lim, K1e9, 64)))}}

Failing(e) ==
  LET on(n) == n \in ClauseSet IN
  (IF on("Balance") THEN Balance(e) ELSE {}) \cup (IF on("JunctionPass") THEN JunctionPass(e) ELSE {}) \cup (IF on("Global") THEN Global(e) ELSE {})
  \cup (IF on("NonNeg") THEN NonNeg(e) ELSE {}) \cup (IF on("Finite") THEN Finite(e) ELSE {}) \cup (IF on("NoOverdraw") THEN NoOverdraw(e) ELSE {})
  \cup (IF on("Ratio") THEN Ratio(e) ELSE {}) \cup (IF on("NegZero") THEN NegZero(e) ELSE {})
  \cup (IF on("ConvertRel") THEN ConvertRel(e) ELSE {}) \cup (IF on("ResolveRel") THEN ResolveRel(e) ELSE {})
  \cup (IF on("JEmpty") THEN JEmpty(e) ELSE {}) \cup (IF on("JSplit") THEN JSplit(e) ELSE {}) \cup (IF on("FlushConserves") THEN FlushConserves(e) ELSE {})
  \cup (IF on("InitSpread") THEN InitSpread(e) ELSE {}) \cup (IF on("Rows") THEN Rows(e) ELSE {}) \cup (IF on("ShiftRel") THEN ShiftRel(e) ELSE {}) \cup (IF on("FlushAll") THEN FlushAll(e) ELSE {})

Init == i = 2 /\ bad = {} /\ win = [g \in Groups |-> <<>>] /\ age = 0 /\ ini = <<>>
Next == /\ i <= Len(Trace)
        /\ LET e == Trace[i]
               hist == Groups # {} /\ ({"Bound","NotEarly"} \cap ClauseSet) # {}
               st0 == IF e.first THEN e.st ELSE ini
               wprev == IF e.first THEN [g \in Groups |-> <<>>] ELSE win
               t == IF e.first THEN 1 ELSE age + 1
               w == [g \in Groups |-> LastN(Append(wprev[g], Arrivals(e, g)), GN(g) + 1)]
               more == IF ~hist THEN {} ELSE (IF "Bound" \in ClauseSet THEN BoundF(e, w, t, st0) ELSE {}) \cup (IF "NotEarly" \in ClauseSet THEN NotEarlyF(e, wprev, t, st0) ELSE {})
           IN /\ bad' = IF Cardinality(bad) > 20 THEN bad ELSE bad \cup Failing(e) \cup more
              /\ win' = IF hist THEN w ELSE win
              /\ age' = t
              /\ ini' = IF hist THEN st0 ELSE ini
        /\ i' = i + 1
Spec == Init /\ [][Next]_<<i, bad, win, age, ini>>
Verdict == i > Len(Trace) => bad = {}
Consumed == TLCGet("stats").diameter = Len(Trace)
====
