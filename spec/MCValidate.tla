---- MODULE MCValidate ----
EXTENDS Validate
C(n, k) == [name |-> n, kind |-> k]
B1 == [id |-> "sirj",
       comps |-> {C("src", "source"), C("sus", "normal"), C("inf", "normal"), C("rcv", "normal"), C("jn", "junction"), C("dead", "sink")},
       pars |-> {Par("birth", "number", {}, {}), Par("beta", "", {}, {}), Par("foi", "probability", {"beta", "inf", "alive"}, {"max"}), Par("rec", "rate", {}, {}),
                 Par("split1", "proportion", {}, {}), Par("split2", "proportion", {}, {}), Par("wane", "duration", {}, {}), Par("mort", "rate", {}, {})},
       trans |-> {<<"src", "sus", "birth">>, <<"sus", "inf", "foi">>, <<"inf", "jn", "rec">>, <<"jn", "rcv", "split1">>, <<"jn", "dead", "split2">>, <<"rcv", "sus", "wane">>,
                  <<"sus", "dead", "mort">>, <<"inf", "dead", "mort">>, <<"rcv", "dead", "mort">>},
       characs |-> {[name |-> "alive", parts |-> {"sus", "inf", "rcv"}, denom |-> ""], [name |-> "prev", parts |-> {"inf"}, denom |-> "alive"]},
       cascade |-> <<{"sus", "inf", "rcv"}, {"inf", "rcv"}, {"rcv"}>>,
       sheets |-> {"parameters", "compartments", "characteristics", "transitions", "databook pages", "cascades"}, columns |-> RequiredColumns, dupcodes |-> 0, dupdisplay |-> 0, datadefects |-> {},
       datapops |-> {"adults", "kids"}, targetable |-> {"rec", "mort"}, extranames |-> {},
       anch |-> [tpar |-> "rec", c1 |-> "inf", c2 |-> "sus", fpar |-> "foi", p2 |-> "mort"],
       pb |-> [progs |-> {"P1", "P2"}, dupprogs |-> 0, tpops |-> {"adults", "kids"}, tcomps |-> {"inf", "sus"}, epars |-> {"rec", "mort"}, epops |-> {"adults", "kids"},
               eprogs |-> {"P1", "P2"}, iprogs |-> {"P1", "P2"}, untargeted |-> {}, defects |-> {}]]
B2 == [B1 @@ [timed |-> {"wane"}] EXCEPT !.id = "sirt"]
MCBases == <<B1, B2>>
MCMutations == {"none", "add_output_parameter", "undefined_compartment_in_transition", "undefined_parameter_in_transition", "duplicate_code_name", "duplicate_display_name", "reserved_name",
                "junction_outflow_not_proportion", "proportion_on_ordinary_link", "source_outflow_not_number", "sink_outflow", "inflow_to_source", "self_reference", "cyclic_functions",
                "unsupported_call", "undefined_dependency", "undefined_characteristic_component", "cyclic_characteristics", "junction_cycle", "residual_from_ordinary_compartment", "add_residual_outflow", "two_residual_outflows", "unnested_cascade", "unnested_cascade_later_stage", "characteristic_on_unlisted_page", "capitalised_units", "delete_transitions_sheet", "delete_parameters_sheet", "delete_format_column",
                "delete_code_name_column", "blank_optional_column", "delete_optional_sheet",
                "databook_delete_table", "databook_unit_mismatch", "databook_unit_timescale_mismatch", "databook_unit_mismatch_compartment", "databook_blank_required_values", "databook_unknown_population", "databook_missing_population_row", "databook_legacy_missing_population_row", "databook_delete_state_sheet",
                "progbook_none", "progbook_lowercase_flags", "progbook_zero_outcome", "progbook_unknown_population", "progbook_unknown_compartment", "progbook_duplicate_program", "progbook_duplicate_program_everywhere", "progbook_duplicate_program_consistent",
                "progbook_reserved_program_name", "progbook_untargetable_parameter", "progbook_unknown_parameter", "progbook_unknown_effect_population", "progbook_unknown_program_in_effects",
                "progbook_interaction_unknown_program", "progbook_no_target_compartment", "progbook_no_target_population", "progbook_missing_unit_cost", "progbook_missing_spending",
                "progbook_outcome_without_baseline", "progbook_bad_coverage_interaction", "progbook_mixed_currencies", "progbook_delete_effects_sheet", "progbook_delete_spending_sheet",
                "progbook_interaction_program_without_outcome"} \cup GenericMutations \cup TimedMutations
====
