---- MODULE AllocTrace ----
(* Direction code -> spec for C14: outcome of TotalSpendConstraint.get_hard_constraint + constrain_instructions per case. *)
(* record: [id, outcome ("ok" | "failed" | "unresolvable" | "error"), years |-> << [total, lower, upper, unresolvable, satisfied, x, z] >>] *)
EXTENDS Rat, Big, TLC, Json, IOUtils, FiniteSets
Trace == JsonDeserialize(IOEnv.TRACE_FILE)
VARIABLES i, bad
INF == <<1000000, 1>>
AnyUnres(e) == \E y \in 1..Len(e.years) : e.years[y].unresolvable
SumZ(yr) == SSumSeq(yr.z)
\* |sum z - total| <= 1e-6 * total (+ quantisation slack)
SumOK(yr) == LET t == yr.total IN
      SLe(SAbs(SSub(SMulInt(SumZ(yr), t[2]), SFromInt(t[1]))), [s |-> 1, m |-> UAdd(UDrop(UMul(SAbs(SFromInt(t[1])).m, K1e6), 3), UFromInt(64 * t[2]))])
BoundsOK(yr) == \A k \in 1..Len(yr.z) : RatLeFix(yr.lower[k], yr.z[k], K1e9, 8) /\ (yr.upper[k] = INF \/ FixLeRat(yr.z[k], yr.upper[k], K1e9, 8))
Unchanged(yr) == yr.satisfied => \A k \in 1..Len(yr.z) : RatClose(yr.x[k], yr.z[k], K1e9, 8)
Failing(e) ==
     (IF e.outcome = "error" THEN {"DedicatedSignal"} ELSE {})
\cup (IF AnyUnres(e) /\ e.outcome # "unresolvable" THEN {"ReportedUpFront"} ELSE {})
\cup (IF e.outcome = "ok" /\ \E y \in 1..Len(e.years) : ~SumOK(e.years[y]) THEN {"Total"} ELSE {})
\cup (IF e.outcome = "ok" /\ \E y \in 1..Len(e.years) : ~BoundsOK(e.years[y]) THEN {"Bounds"} ELSE {})
\cup (IF e.outcome = "ok" /\ \E y \in 1..Len(e.years) : ~Unchanged(e.years[y]) THEN {"Unchanged"} ELSE {})
\cup (IF e.outcome = "failed" /\ \A y \in 1..Len(e.years) : e.years[y].satisfied THEN {"UnchangedRejected"} ELSE {})
Init == i = 1 /\ bad = {}
Next == /\ i <= Len(Trace)
        /\ bad' = IF Cardinality(bad) > 60 THEN bad ELSE bad \cup {<<Trace[i].id, c>> : c \in Failing(Trace[i])}
        /\ i' = i + 1
Spec == Init /\ [][Next]_<<i, bad>>
Verdict == i > Len(Trace) => bad = {}
Consumed == TLCGet("stats").diameter - 1 = Len(Trace)
====
