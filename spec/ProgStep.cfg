SPECIFICATION Spec
CONSTANTS
 Units <- MCUnits
 Outcomes <- MCOutcomes
 PopSizes <- MCPopSizes
 Dts <- MCDts
 Limits <- MCLimits
 NSteps = 5
 StartIdx = 2
 StopIdx = 3
INVARIANT GateOK
INVARIANT InLimits
CHECK_DEADLOCK FALSE
