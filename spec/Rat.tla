---- MODULE Rat ----
(* Exact rational arithmetic on pairs <<n, d>>, d > 0, gcd-normalised.                      *)
(* TLC integers are 32-bit; TLC aborts with "Overflow when computing" rather than wrapping, *)
(* which the driver reports as a machinery error (exit 2), never as a verdict.              *)
EXTENDS Integers, Sequences, FiniteSetsExt, SequencesExt
RECURSIVE GCD(_,_)
GCD(a,b) == IF b = 0 THEN a ELSE GCD(b, a % b)
Abs(x) == IF x < 0 THEN -x ELSE x
Norm(n,d) == LET g == GCD(Abs(n), Abs(d)) s == IF d < 0 THEN -1 ELSE 1
             IN IF n = 0 THEN <<0,1>> ELSE <<s*(n \div g), s*(d \div g)>>
R(n,d) == Norm(n,d)
Zero == <<0,1>>
One == <<1,1>>
RInt(k) == <<k,1>>
RAdd(a,b) == LET g == GCD(a[2],b[2]) IN Norm(a[1]*(b[2] \div g) + b[1]*(a[2] \div g), (a[2] \div g)*b[2])
RNeg(a) == <<-a[1], a[2]>>
RSub(a,b) == LET g == GCD(a[2],b[2]) IN Norm(a[1]*(b[2] \div g) - b[1]*(a[2] \div g), (a[2] \div g)*b[2])
RMul(a,b) == LET g1 == GCD(Abs(a[1]),b[2]) g2 == GCD(Abs(b[1]),a[2])
             IN IF a[1] = 0 \/ b[1] = 0 THEN Zero ELSE <<(a[1] \div g1)*(b[1] \div g2), (a[2] \div g2)*(b[2] \div g1)>>
RInv(a) == IF a[1] < 0 THEN <<-a[2], -a[1]>> ELSE <<a[2], a[1]>>
RDiv(a,b) == RMul(a, RInv(b))
RLt(a,b) == LET g == GCD(a[2],b[2]) IN a[1]*(b[2] \div g) < b[1]*(a[2] \div g)
RLe(a,b) == LET g == GCD(a[2],b[2]) IN a[1]*(b[2] \div g) <= b[1]*(a[2] \div g)
RMax(a,b) == IF RLe(a,b) THEN b ELSE a
RMin(a,b) == IF RLe(a,b) THEN a ELSE b
RAbs(a) == <<Abs(a[1]), a[2]>>
RFloor(a) == a[1] \div a[2]                       \* TLC's \div floors toward minus infinity
RCeil(a) == IF a[1] % a[2] = 0 THEN a[1] \div a[2] ELSE (a[1] \div a[2]) + 1
RSumSet(S, f) == FoldSet(LAMBDA x, acc : RAdd(f[x], acc), Zero, S)
RSumSeq(s) == FoldLeft(LAMBDA acc, x : RAdd(acc, x), Zero, s)
RProdSet(S, f) == FoldSet(LAMBDA x, acc : RMul(f[x], acc), One, S)
RClamp0(v) == IF RLt(v, Zero) THEN Zero ELSE v
RClip(v, lo, hi) == RMin(RMax(v, lo), hi)
IMax(a,b) == IF a >= b THEN a ELSE b
IMin(a,b) == IF a <= b THEN a ELSE b
====
