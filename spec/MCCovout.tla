---- MODULE MCCovout ----
EXTENDS Covout
MCCov == {<<0,1>>, <<1,4>>, <<1,2>>, <<3,4>>, <<1,1>>}
MCOut == {<<0,1>>, <<1,5>>, <<1,2>>, <<9,10>>}
MCBase == {<<0,1>>, <<1,2>>}
MCPat == {"none", "pairs", "full", "all", "all2"}
MCCovSmall == {<<0,1>>, <<1,4>>, <<3,4>>, <<1,1>>}
MCOutSmall == {<<0,1>>, <<1,5>>, <<9,10>>}
MCPatSmall == {"none", "all"}
MCBaseSmall == {<<1,5>>}
MCNoSample == <<0, 0>>
MCNone == {}
====
