---- MODULE Covout ----
(***************************************************************************************************)
(* C12: program outcomes are a coverage-weighted average of baseline and combination outcomes.       *)
(* Exact transcription of Covout.update_outcomes / compute_impact_interaction / get_outcome          *)
(* (atomica/programs.py) as a *weight on every combination of programs*, for the three coverage     *)
(* interactions.  TLC enumerates cases (coverages, outcomes, baseline, interaction, explicit         *)
(* interaction outcomes), checks the theorems of the property on the transcription (P_spec) and      *)
(* emits each case with its exact expected value; CovoutTrace.tla judges what the real code returns. *)
(***************************************************************************************************)
EXTENDS Rat, TLC, FiniteSets, Json, Randomization
CONSTANTS N,           \* number of programs affecting the parameter
          CovGrid, OutGrid, BaseGrid, Patterns,
          Sample,      \* <<0, 0>>: every outcome vector and every coverage vector of the grids; otherwise the vectors below (4 and 5 programs),
          SampOut, SampCov   \* drawn by the harness with a seeded generator
Progs == 1..N
Combos == SUBSET Progs
VARIABLES cov, out, base, mode, pat, obs
vars == <<cov, out, base, mode, pat, obs>>

SumF(S, f) == FoldSet(LAMBDA x, acc : RAdd(f[x], acc), Zero, S)
ProdF(S, f) == FoldSet(LAMBDA x, acc : RMul(f[x], acc), One, S)
SetSum(S) == FoldSet(LAMBDA x, acc : x + acc, 0, S)
OutSeq == SetToSortSeq(OutGrid, LAMBDA a, b : RLt(a, b))

\* explicit interaction outcomes: a pattern decides which combinations (of two or more programs) carry a stated value
HasExplicit(S) == Cardinality(S) >= 2 /\
      CASE pat = "none" -> FALSE
        [] pat = "pairs" -> Cardinality(S) = 2
        [] pat = "full" -> S = Progs
        [] pat = "all" -> TRUE
        [] pat = "all2" -> TRUE
Explicit(S) == OutSeq[((SetSum(S) + Cardinality(S) + (IF pat = "all2" THEN 2 ELSE 0)) % Len(OutSeq)) + 1]

\* update_outcomes: programs sorted by |outcome - baseline| descending, ties keep their original order (stable sort)
Delta(i) == RSub(out[i], base)
Before(i, j) == RLt(RAbs(Delta(j)), RAbs(Delta(i))) \/ (RAbs(Delta(i)) = RAbs(Delta(j)) /\ i < j)   \* i sorts before j
Pos(i) == Cardinality({j \in Progs : Before(j, i)}) + 1                                               \* 1-based position
\* compute_impact_interaction: explicit value where given, otherwise the member delta of largest magnitude (first in sorted order)
ComboDelta(S) == IF S = {} THEN Zero
                 ELSE IF HasExplicit(S) THEN RSub(Explicit(S), base)
                 ELSE Delta(CHOOSE i \in S : \A j \in S : Pos(i) <= Pos(j))

\* ---- weights on combinations, as operators of the coverage vector c ----
WRandom(c) == [S \in Combos |-> ProdF(Progs, [i \in Progs |-> IF i \in S THEN c[i] ELSE RSub(One, c[i])])]
Rank(c, i) == Cardinality({j \in Progs : RLt(c[j], c[i]) \/ (c[j] = c[i] /\ j < i)})          \* position ascending, 0-based
Active(c, k) == {i \in Progs : Rank(c, i) >= k}
AtRank(c, k) == CHOOSE x \in Progs : Rank(c, x) = k
LevelCov(c, k) == IF k = 0 THEN c[AtRank(c, 0)] ELSE RSub(c[AtRank(c, k)], c[AtRank(c, k-1)])
WNested(c) == [S \in Combos |-> IF S = {} THEN RSub(One, c[AtRank(c, N-1)])
                                ELSE SumF({k \in 0..(N-1) : Active(c, k) = S}, [k \in 0..(N-1) |-> LevelCov(c, k)])]
\* additive with total coverage above 1: programs taken in sorted (impact) order fill the unit interval additively, the
\* excess of each program is spread at random over the rest
CumBefore(c, i) == SumF({j \in Progs : Pos(j) < Pos(i)}, c)
Additive(c) == [i \in Progs |-> RMax(RSub(c[i], RMax(RSub(c[i], RSub(One, CumBefore(c, i))), Zero)), Zero)]
RPortion(c) == LET a == Additive(c) IN [i \in Progs |-> IF RSub(One, a[i]) = Zero THEN Zero ELSE RDiv(RSub(c[i], a[i]), RSub(One, a[i]))]
WAddOver(c) == LET a == Additive(c)  rp == RPortion(c) IN
               [S \in Combos |-> SumF(Progs, [i \in Progs |-> IF i \in S
                  THEN RMul(a[i], ProdF(Progs \ {i}, [j \in Progs |-> IF j \in S THEN rp[j] ELSE RSub(One, rp[j])]))
                  ELSE Zero])]
WAddUnder(c) == [S \in Combos |-> IF S = {} THEN RSub(One, SumF(Progs, c)) ELSE IF Cardinality(S) = 1 THEN c[CHOOSE i \in S : TRUE] ELSE Zero]
Weights(c) == IF N = 1 THEN [S \in Combos |-> IF S = {} THEN RSub(One, c[1]) ELSE c[1]]
              ELSE IF mode = "random" THEN WRandom(c) ELSE IF mode = "nested" THEN WNested(c)
              ELSE IF RLt(One, SumF(Progs, c)) THEN WAddOver(c) ELSE WAddUnder(c)
\* get_outcome (a single program is handled by the short cut  baseline + c * delta, without explicit interactions)
OutcomeAt(c) == LET w == Weights(c) IN RAdd(base, SumF(Combos, [S \in Combos |-> RMul(w[S], ComboDelta(S))]))
W == Weights(cov)
Outcome == OutcomeAt(cov)

SameWay(sgn) == \A S \in Combos : RLe(Zero, RMul(RInt(sgn), ComboDelta(S)))
InclMonotone(sgn) == \A S, T \in Combos : S \subseteq T => RLe(RMul(RInt(sgn), ComboDelta(S)), RMul(RInt(sgn), ComboDelta(T)))
Modes == IF N = 1 THEN {"additive"} ELSE {"additive", "nested", "random"}
\* Init chooses everything but the coverage vector; Pick chooses the coverages and emits the case (two levels so that
\* TLC's workers share the enumeration: initial states are generated by a single thread)
Unset == <<>>
Init == /\ cov = Unset /\ out \in (IF Sample[1] = 0 THEN [Progs -> OutGrid] ELSE SampOut) /\ base \in BaseGrid
        /\ mode \in Modes /\ pat \in (IF N = 1 THEN {"none"} ELSE Patterns) /\ obs = ""
Case(c) == ToJson([n |-> N, cov |-> c, out |-> out, base |-> base, mode |-> mode, pat |-> pat,
                   explicit |-> {<<SetToSortSeq(S, LAMBDA a, b : a < b), Explicit(S)>> : S \in {S \in Combos : HasExplicit(S)}},
                   order |-> [i \in Progs |-> Pos(i)],
                   lo |-> CHOOSE lo \in {RAdd(base, ComboDelta(S)) : S \in Combos} : \A S \in Combos : RLe(lo, RAdd(base, ComboDelta(S))),
                   hi |-> CHOOSE hi \in {RAdd(base, ComboDelta(S)) : S \in Combos} : \A S \in Combos : RLe(RAdd(base, ComboDelta(S)), hi),
                   mono |-> (IF SameWay(1) /\ InclMonotone(1) THEN 1 ELSE IF SameWay(-1) /\ InclMonotone(-1) THEN -1 ELSE 0),
                   expect |-> OutcomeAt(c)])
Pick == /\ cov = Unset
        /\ \E c \in (IF Sample[1] = 0 THEN [Progs -> CovGrid] ELSE SampCov) : cov' = c /\ obs' = Case(c)
        /\ UNCHANGED <<out, base, mode, pat>>
Spec == Init /\ [][Pick]_vars

\* ---- the property, as theorems of the transcription (P_spec) ----
NonNegW == cov = Unset \/ \A S \in Combos : RLe(Zero, W[S])
SumsToOne == cov = Unset \/ SumF(Combos, W) = One
Marginals == cov = Unset \/ \A i \in Progs : SumF({S \in Combos : i \in S}, W) = cov[i]
Convex == cov = Unset \/ \E lo, hi \in {RAdd(base, ComboDelta(S)) : S \in Combos} : RLe(lo, Outcome) /\ RLe(Outcome, hi)
ZeroCov == cov = Unset \/ ((\A i \in Progs : cov[i] = Zero) => Outcome = base)
Single == cov = Unset \/ \A i \in Progs : (\A j \in Progs \ {i} : cov[j] = Zero) => Outcome = RAdd(base, RMul(cov[i], Delta(i)))
\* does not get worse when a coverage increases, provided every combination outcome moves the same way and the
\* combination outcomes are themselves monotone in set inclusion (always true without explicit interaction outcomes)
Monotone == cov = Unset \/ \A sgn \in {1, -1} : (SameWay(sgn) /\ InclMonotone(sgn)) =>
               \A i \in Progs : \A c2 \in CovGrid : RLt(cov[i], c2) =>
                  RLe(RMul(RInt(sgn), Outcome), RMul(RInt(sgn), OutcomeAt([cov EXCEPT ![i] = c2])))
====
