---- MODULE MCCoverage ----
EXTENDS Coverage
MCSpends == {<<<<0,1>>, <<10,1>>>>, <<<<10,1>>, <<1000,1>>>>, <<<<1,1>>, <<1,1>>>>}
MCCosts == {<<1,2>>, <<20,1>>}
MCConstraints == {<<"none", <<0,1>>>>, <<"peryear", <<5,1>>>>, <<"abs", <<5,1>>>>}
MCSats == {None, <<1,2>>, <<3,1>>}
MCEligs == {<<0,1>>, <<1,1>>, <<50,1>>, <<10000,1>>}
MCDts == {<<1,12>>, <<1,4>>, <<1,1>>}
\* an overwrite whose two values are equal is handed to ProgramInstructions as a scalar (the "defund this program" idiom: alloc={prog: 0})
MCOverwrites == [spend |-> {<<<<100,1>>, <<0,1>>>>, <<<<0,1>>, <<0,1>>>>}, cap |-> {<<<<2,1>>, <<400,1>>>>}, cov |-> {<<<<1,4>>, <<3,1>>>>}]
====
