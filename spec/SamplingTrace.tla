---- MODULE SamplingTrace ----
(* Direction code -> spec for C17: digests recorded from real sampled runs.                                        *)
(*  [id, kind |-> "schedule", digests (one string per sample), before, after]   replayed schedule / real pool run   *)
(*  [id, kind |-> "zero", sampled, unsampled, before, after]                     no uncertainty entered              *)
(*  [id, kind |-> "book", ok]                                                    a valid program book must be sampleable *)
EXTENDS Integers, Sequences, TLC, Json, IOUtils, FiniteSets
Trace == JsonDeserialize(IOEnv.TRACE_FILE)
VARIABLES i, bad
Failing(e) ==
   IF e.kind = "schedule" THEN
        (IF \E a, b \in 1..Len(e.digests) : a < b /\ e.digests[a] = e.digests[b] THEN {"Distinct"} ELSE {})
   \cup (IF e.before = e.after THEN {} ELSE {"SourceUntouched"})
   ELSE IF e.kind = "zero" THEN
        (IF e.sampled = e.unsampled THEN {} ELSE {"ZeroSigma"}) \cup (IF e.before = e.after THEN {} ELSE {"SourceUntouched"})
   ELSE (IF e.ok THEN {} ELSE {"Sampleable"})
Init == i = 1 /\ bad = {}
Next == /\ i <= Len(Trace)
        /\ bad' = IF Cardinality(bad) > 60 THEN bad ELSE bad \cup {<<Trace[i].id, c>> : c \in Failing(Trace[i])}
        /\ i' = i + 1
Spec == Init /\ [][Next]_<<i, bad>>
Verdict == i > Len(Trace) => bad = {}
Consumed == TLCGet("stats").diameter - 1 = Len(Trace)
====
