---- MODULE MCFuncParse ----
EXTENDS FuncParse
MCEnvVals == {<<0,1>>, <<1,1>>, <<-3,2>>, <<4,1>>}
====
