SPECIFICATION Spec
CONSTANTS
  Starts <- MCStarts
  Dts <- MCDts
  Spans <- MCSpans
INVARIANT EndsRight
CHECK_DEADLOCK FALSE
