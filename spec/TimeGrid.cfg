SPECIFICATION Spec
CONSTANTS
  Starts <- MCStarts
  Dts <- MCDts
  Spans <- MCSpans
INVARIANT EndsRight
INVARIANT Fixpoint
CHECK_DEADLOCK FALSE
