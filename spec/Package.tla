---- MODULE Package ----
(***************************************************************************************************)
(* C14, last sentence: spending packages keep each member's share within its minimum / maximum      *)
(* proportion and the package total within its limits, also when a total-spending constraint        *)
(* rescales the package together with plain programs.                                                *)
(* A package (SpendingPackageAdjustment) has N members with initial spends, per-member proportion    *)
(* bounds, and limits on the package total (here multiples <<lo, hi>> of the initial total, <<1,1>>  *)
(* = the total is not adjustable); next to it one plain program Q (SpendingAdjustment, absolute       *)
(* bounds) and optionally a TotalSpendConstraint with a budget factor.  Two stages, as in the code:   *)
(*   Update    : the optimizer's proposal (fractions fr within each member's bounds, package total    *)
(*               pt * initial, Q's amount x) is written into the instructions; the fractions are      *)
(*               projected onto {sum = 1, min <= share <= max} (constrain_sum_bounded)                *)
(*   Constrain : the pair (package total, Q) is projected onto {sum = Total, MinT <= P <= MaxT,       *)
(*               lo <= q <= hi}; the package's members are scaled by a common factor (set_total_spend)*)
(* Both projections are specified by their postconditions; TLC checks the feasibility theory          *)
(* (a witness exists exactly when the case is not Unres; shares are always feasible for a valid       *)
(* package); PackageTrace.tla judges what the real code returned.                                     *)
(***************************************************************************************************)
EXTENDS Rat, TLC, FiniteSets, Sequences, Json, Randomization
CONSTANTS NMem, Inits, PropPairs, FracGrid, TotalRanges, Plains, ConFactors, WGrid,
          PkgSample,       \* 0: every proportion-bound vector and proposal of the grids; > 0: the vectors below (three members), drawn by the harness
          SampPB, SampFR   \* with a seeded generator
VARIABLES fixed, case, obs
vars == <<fixed, case, obs>>
Mem == 1..NMem
INF == <<1000000, 1>>
NoCon == <<-1, 1>>
SumF(f) == RSumSet(Mem, f)
IT(c) == SumF(c.init)                                        \* initial package total
InitProp(c, i) == IF IT(c) = Zero THEN <<1, NMem>> ELSE RDiv(c.init[i], IT(c))
SumMin(c) == SumF([i \in Mem |-> c.pb[i][1]])
SumMax(c) == SumF([i \in Mem |-> c.pb[i][2]])
\* what the constructor accepts, and proposals an optimizer can make (each adjustable within its own bounds)
Valid(c) == /\ RLe(SumMin(c), One) /\ RLe(One, SumMax(c))
            /\ \A i \in Mem : RLe(c.pb[i][1], InitProp(c, i)) /\ RLe(InitProp(c, i), c.pb[i][2])
            /\ \A i \in Mem : RLe(c.pb[i][1], c.fr[i]) /\ RLe(c.fr[i], c.pb[i][2])
            /\ RLe(c.tr[1], c.pt) /\ RLe(c.pt, c.tr[2])
            /\ RLe(c.plain.lo, c.plain.x) /\ (c.plain.hi = INF \/ RLe(c.plain.x, c.plain.hi))
MinT(c) == RMul(c.tr[1], IT(c))
MaxT(c) == RMul(c.tr[2], IT(c))
AT(c) == ~(MinT(c) = IT(c) /\ MaxT(c) = IT(c))               \* the package total is an adjustable of its own
P1(c) == IF AT(c) THEN RMul(c.pt, IT(c)) ELSE IT(c)          \* package total after Update
HasCon(c) == c.con # NoCon
\* the constraint covers the package only when its total is adjustable
Total(c) == RMul(c.con, RAdd(IF AT(c) THEN IT(c) ELSE Zero, c.plain.x0))
LowSum(c) == RAdd(IF AT(c) THEN MinT(c) ELSE Zero, c.plain.lo)
UpSum(c) == IF c.plain.hi = INF THEN INF ELSE RAdd(IF AT(c) THEN MaxT(c) ELSE Zero, c.plain.hi)
Unres(c) == HasCon(c) /\ (RLt(Total(c), LowSum(c)) \/ (UpSum(c) # INF /\ RLt(UpSum(c), Total(c))))
Satisfied(c) == HasCon(c) /\ RAdd(IF AT(c) THEN P1(c) ELSE Zero, c.plain.x) = Total(c)

\* ---- feasibility theory ----
\* a point of the box [lo, hi] with the given sum: lower bounds plus a common fraction of the room
BoxWitness(S, lo, hi, t) == LET cap == [i \in S |-> IF hi[i] = INF THEN RMax(t, lo[i]) ELSE hi[i]]
                                room == RSumSet(S, [i \in S |-> RSub(cap[i], lo[i])])
                                need == RSub(t, RSumSet(S, lo))
                            IN [i \in S |-> IF room = Zero THEN lo[i] ELSE RAdd(lo[i], RMul(RSub(cap[i], lo[i]), RDiv(need, room)))]
InBox(S, lo, hi, z, t) == RSumSet(S, z) = t /\ \A i \in S : RLe(lo[i], z[i]) /\ (hi[i] = INF \/ RLe(z[i], hi[i]))
ShareLo(c) == [i \in Mem |-> c.pb[i][1]]
ShareHi(c) == [i \in Mem |-> c.pb[i][2]]
Lev == {1, 2}                                                \* 1 = the package, 2 = the plain program
LevLo(c) == [k \in Lev |-> IF k = 1 THEN (IF AT(c) THEN MinT(c) ELSE Zero) ELSE c.plain.lo]
LevHi(c) == [k \in Lev |-> IF k = 1 THEN (IF AT(c) THEN MaxT(c) ELSE Zero) ELSE c.plain.hi]

Mk(f, pb, fr, pt, pl) == [init |-> f.init, tr |-> f.tr, con |-> f.con, pb |-> pb, fr |-> fr, pt |-> pt, plain |-> pl]
Init == /\ fixed \in {[init |-> s, tr |-> t, con |-> k] : s \in Inits, t \in TotalRanges, k \in ConFactors}
        /\ case = <<>> /\ obs = ""
Pick == /\ case = <<>>
        /\ \E pb \in (IF PkgSample = 0 THEN [Mem -> PropPairs] ELSE SampPB),
              fr \in (IF PkgSample = 0 THEN [Mem -> FracGrid] ELSE SampFR), pl \in Plains :
             \E pt \in {fixed.tr[1], One, fixed.tr[2]} :
              LET c == Mk(fixed, pb, fr, pt, pl) IN
              /\ Valid(c)
              /\ case' = c
              /\ obs' = ToJson([case |-> c, n |-> NMem, it |-> IT(c), at |-> AT(c), mint |-> MinT(c), maxt |-> MaxT(c), p1 |-> P1(c),
                                hascon |-> HasCon(c), total |-> IF HasCon(c) THEN Total(c) ELSE Zero, unres |-> Unres(c), satisfied |-> Satisfied(c)])
        /\ UNCHANGED fixed
Spec == Init /\ [][Pick]_vars

Has == case # <<>>
\* a valid package always admits shares within the proportion bounds
ShareFeasible == Has => InBox(Mem, ShareLo(case), ShareHi(case), BoxWitness(Mem, ShareLo(case), ShareHi(case), One), One)
\* the constraint is impossible from the outset exactly when no (package total, Q) exists
UnresSound == (Has /\ Unres(case)) => \A p \in WGrid, q \in WGrid : ~InBox(Lev, LevLo(case), LevHi(case), [k \in Lev |-> IF k = 1 THEN p ELSE q], Total(case))
LevelFeasible == (Has /\ HasCon(case) /\ ~Unres(case)) => InBox(Lev, LevLo(case), LevHi(case), BoxWitness(Lev, LevLo(case), LevHi(case), Total(case)), Total(case))
====
