---- MODULE ParamPipelineTrace ----
(* Direction code -> spec for C06.                                                                                 *)
(*  [id, kind |-> "exact", want (rational), obs]              enumerated case: observed parameter value vs exact value *)
(*  [id, kind |-> "fn", val, f, yf, lo, hi, haslo, hashi]     any run: value = Clip(f(deps)) or Clip(y*meta*f(deps))     *)
(*        f = the parameter function evaluated independently on the observed same-step dependencies, yf = scale x f     *)
(*  [id, kind |-> "data", val, want, lo, hi, haslo, hashi]     data parameter: value = Clip(Interp(data) x y x meta)      *)
EXTENDS Rat, Big, Integers, Sequences, TLC, Json, IOUtils, FiniteSets
Trace == ndJsonDeserialize(IOEnv.TRACE_FILE)
VARIABLES i, bad
ClipS(x, e) == LET a == IF e.haslo /\ SLt(x, e.lo) THEN e.lo ELSE x IN IF e.hashi /\ SLt(e.hi, a) THEN e.hi ELSE a
InLim(e) == (~e.haslo \/ SLe(e.lo, SAdd(e.val, Tol(e.val, K1e9, 8)))) /\ (~e.hashi \/ SLe(e.val, SAdd(e.hi, Tol(e.hi, K1e9, 8))))
Failing(e) ==
   IF e.kind = "exact" THEN (IF RatClose(e.want, e.obs, K1e9, 8) THEN {} ELSE {"Value"})
   ELSE IF e.kind = "fn" THEN
        (IF InLim(e) THEN {} ELSE {"Limits"}) \cup
        (IF SClose(e.val, ClipS(e.f, e), K1e9, 64) \/ SClose(e.val, ClipS(e.yf, e), K1e9, 64) THEN {} ELSE {"Function"})
   ELSE (IF InLim(e) THEN {} ELSE {"Limits"}) \cup (IF SClose(e.val, ClipS(e.want, e), K1e9, 64) THEN {} ELSE {"Data"})
Init == i = 1 /\ bad = {}
Next == /\ i <= Len(Trace)
        /\ bad' = IF Cardinality(bad) > 60 THEN bad ELSE bad \cup {<<Trace[i].id, c>> : c \in Failing(Trace[i])}
        /\ i' = i + 1
Spec == Init /\ [][Next]_<<i, bad>>
Verdict == i > Len(Trace) => bad = {}
Consumed == TLCGet("stats").diameter - 1 = Len(Trace)
====
