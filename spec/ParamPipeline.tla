---- MODULE ParamPipeline ----
(***************************************************************************************************)
(* C06: parameter values follow   data x calibration -> function -> program -> limits.              *)
(* Exact specification of the value of every parameter at every simulation time for a family of      *)
(* generated frameworks whose parameters depend on data, on other parameters and on time (so the     *)
(* values are rational functions of the inputs and can be computed by TLC without the engine):        *)
(*    base   data parameter, sparse data pattern (assumption only / one year / two years inside /     *)
(*           years outside the simulation range), population and all-population calibration factors   *)
(*    f1 = base*2 + 1           function of a data parameter, framework limits, calibration factor     *)
(*    f2 = f1 + (t - 2000)      function of a function parameter and of time (chain)                   *)
(*    h  = f1 + f2              diamond                                                                *)
(*    r  = min(f2, 5) / 10      transition probability driven by a function, limits                    *)
(*    m  data transition rate, targeted by a program while start <= t <= stop                          *)
(*    km = m / 2                transition probability that is a function of the program-targeted m only: *)
(*                              it follows the program outcome of m in the same step, not m's data value    *)
(* Value(p, k) = Clip( ProgramOrElse( FunctionOrElse( Interp(data, T(k)) * y * meta ) ) ), with the     *)
(* dependencies read after their own clip at the same k; a parameter scenario on f1 suspends its        *)
(* function from the first overwrite year on (the scenario values, scaled like data, are used there).   *)
(* The calibration factors multiply function results as well (the library's documented reading of the   *)
(* calibration of function parameters); the trace module accepts both readings (ambiguity rule).        *)
(***************************************************************************************************)
EXTENDS Rat, TLC, FiniteSets, Json
CONSTANTS DataPatterns,   \* set of time series for `base`: sets of <<year, value>>, or {<<None, v>>} for the constant assumption
          Factors,        \* set of <<y_base, meta_base, y_f1>>
          Limits,         \* set of <<lo, hi>> for f1 (None = no limit)
          Programs,       \* set of <<on, startIdx, stopIdx, coverage, outcome, baseline>>
          Scenarios,      \* set of <<on, firstIdx, value>> : overwrite of f1 from time index firstIdx on (stepped)
          K, Dt
VARIABLES case, obs
vars == <<case, obs>>
None == <<-1, 1>>
Start == <<2000, 1>>
T(k) == RAdd(Start, RMul(RInt(k), Dt))
\* ---- TimeSeries.interpolate (linear, constant outside the data range, or the constant assumption) ----
IsAssumption(s) == \E p \in s : p[1] = None
Times(s) == {p[1] : p \in s}
At(s, t) == (CHOOSE p \in s : p[1] = t)[2]
Interp(s, t) == IF IsAssumption(s) THEN (CHOOSE p \in s : TRUE)[2]
                ELSE LET bef == {u \in Times(s) : RLe(u, t)}  aft == {u \in Times(s) : RLe(t, u)} IN
                     IF t \in Times(s) THEN At(s, t)
                     ELSE IF bef = {} THEN At(s, CHOOSE u \in Times(s) : \A w \in Times(s) : RLe(u, w))
                     ELSE IF aft = {} THEN At(s, CHOOSE u \in Times(s) : \A w \in Times(s) : RLe(w, u))
                     ELSE LET a == CHOOSE u \in bef : \A w \in bef : RLe(w, u)
                              b == CHOOSE u \in aft : \A w \in aft : RLe(u, w)
                          IN RAdd(At(s, a), RMul(RSub(At(s, b), At(s, a)), RDiv(RSub(t, a), RSub(b, a))))
Clip(v, lim) == LET a == IF lim[1] = None THEN v ELSE RMax(v, lim[1]) IN IF lim[2] = None THEN a ELSE RMin(a, lim[2])
\* ---- the pipeline, in dependency order ----
Base(c, k) == RMul(RMul(Interp(c.data, T(k)), c.fac[1]), c.fac[2])
F1(c, k) == LET sc == c.scen
                fn == RMul(c.fac[3], RAdd(RMul(Base(c, k), <<2,1>>), One))
                v == IF sc[1] /\ k >= sc[2] THEN RMul(sc[3], c.fac[3]) ELSE fn               \* scenario values replace the function from its first year on
            IN Clip(v, c.lim)
F2(c, k) == RAdd(F1(c, k), RSub(T(k), Start))
H(c, k) == RAdd(F1(c, k), F2(c, k))
Rr(c, k) == Clip(RDiv(RMin(F2(c, k), <<5,1>>), <<10,1>>), <<Zero, <<2,5>>>>)
MData == <<3,10>>
M(c, k) == LET p == c.prog IN
           IF p[1] /\ p[2] <= k /\ k <= p[3]
           THEN Clip(RDiv(RAdd(p[6], RMul(p[4], RSub(p[5], p[6]))), Dt), <<Zero, <<3,2>>>>)        \* single-program outcome, per-year conversion, limits
           ELSE Clip(MData, <<Zero, <<3,2>>>>)
KM(c, k) == Clip(RDiv(M(c, k), <<2,1>>), <<Zero, One>>)
Init == case = <<>> /\ obs = ""
Pick == /\ case = <<>>
        /\ \E d \in DataPatterns, f \in Factors, l \in Limits, p \in Programs, s \in Scenarios :
              LET c == [data |-> d, fac |-> f, lim |-> l, prog |-> p, scen |-> s] IN
              /\ case' = c
              /\ obs' = ToJson([case |-> c, dt |-> Dt, k |-> K,
                                vals |-> [k \in 0..(K-1) |-> [base |-> Base(c, k), f1 |-> F1(c, k), f2 |-> F2(c, k), h |-> H(c, k), r |-> Rr(c, k), m |-> M(c, k), km |-> KM(c, k)]]])
Spec == Init /\ [][Pick]_vars
\* every value that drives a flow or a dependent parameter lies inside its limits
InLimits == case # <<>> => \A k \in 0..(K-1) :
     /\ (case.lim[1] = None \/ RLe(case.lim[1], F1(case, k))) /\ (case.lim[2] = None \/ RLe(F1(case, k), case.lim[2]))
     /\ RLe(Zero, Rr(case, k)) /\ RLe(Rr(case, k), <<2,5>>) /\ RLe(Zero, M(case, k)) /\ RLe(M(case, k), <<3,2>>)
\* a function of a program-targeted parameter sees the program's value: while the program is active km is half the outcome-driven m
FollowsProgram == case # <<>> => \A k \in 0..(K-1) : KM(case, k) = RMin(RDiv(M(case, k), <<2,1>>), One)
\* outside the program window the targeted data parameter has its data value; at an entered year the data value is exact
DataExact == case # <<>> => \A k \in 0..(K-1) : (~IsAssumption(case.data) /\ T(k) \in Times(case.data)) => Base(case, k) = RMul(RMul(At(case.data, T(k)), case.fac[1]), case.fac[2])
====
