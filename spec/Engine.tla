---- MODULE Engine ----
(***************************************************************************************************)
(* The integration engine of atomica (atomica/model.py, Model.process) in exact rational arithmetic. *)
(*                                                                                                   *)
(* One action per method of the implementation:                                                      *)
(*    UpdatePars    Model.update_pars      (environment parameters: any value of the world's domain;  *)
(*                                          function / program parameters: see ParamPipeline)         *)
(*    InitialFlush  Model.flush_junctions  (JunctionCompartment.initial_flush in junction order)      *)
(*    UpdateLinks   Model.update_links     = Convert ; Resolve ; Balance                              *)
(*    UpdateComps   Model.update_comps     (Compartment.update of every kind)                         *)
(* The phase variable enforces the order of Model.process, including the start-up sequence            *)
(* pars -> flush -> pars -> links at time index 0.                                                     *)
(*                                                                                                   *)
(* Written from docs/general/Parameters.rst, junctions/Junctions.rst, timed-transitions/             *)
(* Timed-Transitions.rst and the comments in model.py: this module is the independent                *)
(* re-implementation that C03 asks for.  It is bound to the code in both directions by               *)
(* harness/engine.py (replay of every explored transition into Model) and EngineTrace.tla            *)
(* (validation of recorded runs).                                                                    *)
(*                                                                                                   *)
(* A world (module Worlds, generated from harness/worlds.py) is a record:                            *)
(*   id, dt, kind[c], rows[c], dur[c], units[p], tscale[p], dom[p], lsrc[l], ldst[l], lpar[l],       *)
(*   ltimed[l], lflush[l], grid[c], jorder, start (r2 only: TRUE when junction grids may be non-zero)*)
(* Compartments, parameters and links are numbered 1..n; lpar = 0 marks the residual link of a       *)
(* residual junction and flush links.  A stock is a sequence of rows (one row unless timed; row 1 is *)
(* the row that is flushed next, the last row receives arrivals).  A flow is a sequence of rows too  *)
(* (more than one row only for duration-preserving "timed" links).                                   *)
(***************************************************************************************************)
EXTENDS Worlds, TLC, FiniteSets, Json
CONSTANTS K,       \* integration steps explored
          Mode     \* "r1": one step from any grid state (no start-up sequence); "r2": start-up + K steps
VARIABLES wi, ti, phase, stock, pval, cache, flow, hist, obs, st0,  \* st0: the initial stock (before the start-up flush), kept for replay
          raw    \* values of the environment (data) parameters chosen for the current time index, before the parameter pipeline
vars == <<wi, ti, phase, stock, pval, cache, flow, hist, obs, st0, raw>>

RECURSIVE ProdSeq(_)
ProdSeq(ss) == IF ss = <<>> THEN {<<>>} ELSE {<<x>> \o t : x \in Head(ss), t \in ProdSeq(Tail(ss))}
Tot(rows) == RSumSeq(rows)
NL(w) == Len(w.lsrc)
NC(w) == Len(w.kind)
NP(w) == Len(w.units)
Outl(w,c) == {l \in 1..NL(w) : w.lsrc[l] = c}
Inl(w,c) == {l \in 1..NL(w) : w.ldst[l] = c}
ParLinks(w,p) == {l \in 1..NL(w) : w.lpar[l] = p /\ ~w.lflush[l]}
IsJ(w,c) == w.kind[c] \in {"junction","resjunction"}
Resc(t) == IF RLt(One,t) THEN RInv(t) ELSE One
Uniform(total, n) == [r \in 1..n |-> RDiv(total, RInt(n))]

\* ---------- C05: number of rows of a timed compartment -------------------------------------------
Rows(w,c) == IF w.kind[c] = "timed" \/ (IsJ(w,c) /\ w.dur[c] # Zero)
             THEN IMax(1, RCeil(RDiv(w.dur[c], w.dt))) ELSE 1

\* ---------- the parameter pipeline inside the engine (C03 / C06): functions of the same-step state ----------------
\* w.pfn[p] is <<"env">> for a data parameter (value chosen by the environment) or an expression over compartments,
\* characteristics, parameters with a smaller index (dependencies are evaluated and clipped first) and time;
\* w.plim[p] = <<lo, hi>> with NoLim (= <<0,0>>, module Worlds) for an absent limit.  Division is the library's safe division (0 / x = 0).
ClipL(v, lim) == LET a == IF lim[1] = NoLim THEN v ELSE RMax(v, lim[1]) IN IF lim[2] = NoLim THEN a ELSE RMin(a, lim[2])
CharVal(w, st, k) == LET ch == w.chars[k]
                         num == RSumSet(ch.parts, [c \in ch.parts |-> RSumSeq(st[c])])
                     IN IF ch.denom = 0 THEN num
                        ELSE LET dch == w.chars[ch.denom]  den == RSumSet(dch.parts, [c \in dch.parts |-> RSumSeq(st[c])])
                             IN IF num = Zero THEN Zero ELSE RDiv(num, den)
RECURSIVE EvalE(_,_,_,_,_)
EvalE(w, e, eff, st, t) ==
   CASE e[1] = "num" -> e[2]
     [] e[1] = "par" -> eff[e[2]]
     [] e[1] = "comp" -> RSumSeq(st[e[2]])
     [] e[1] = "char" -> CharVal(w, st, e[2])
     [] e[1] = "t" -> t
     \* cross-population aggregation <<"agg", kind, xs, wm, cs, me>>: xs[j] = the aggregated variable in population j, wm[a][b] = interaction weight
     \* from population a to b (<<>> = all ones), cs[j] = optional weighting variable in population j, me = this population.
     \*   SRC_*: sum over j of wm[j][me] * cs[j] * xs[j]      TGT_*: sum over j of wm[me][j] * cs[j] * xs[j];   *_AVG divides by the sum of the weights (0 -> 1)
     [] e[1] = "agg" -> (LET n == Len(e[3])
                             X == [j \in 1..n |-> EvalE(w, e[3][j], eff, st, t)]
                             Wt == [j \in 1..n |-> IF e[4] = <<>> THEN One ELSE IF e[2] \in {"SRC_AVG", "SRC_SUM"} THEN e[4][j][e[6]] ELSE e[4][e[6]][j]]
                             Cw == [j \in 1..n |-> IF e[5] = <<>> THEN One ELSE EvalE(w, e[5][j], eff, st, t)]
                             wj == [j \in 1..n |-> RMul(Wt[j], Cw[j])]
                             num == RSumSet(1..n, [j \in 1..n |-> RMul(wj[j], X[j])])
                             den == RSumSet(1..n, wj)
                         IN IF e[2] \in {"SRC_SUM", "TGT_SUM"} \/ den = Zero THEN num ELSE RDiv(num, den))
     [] OTHER -> LET a == EvalE(w, e[2], eff, st, t)  b == EvalE(w, e[3], eff, st, t) IN
                 IF e[1] = "add" THEN RAdd(a, b) ELSE IF e[1] = "sub" THEN RSub(a, b) ELSE IF e[1] = "mul" THEN RMul(a, b)
                 ELSE IF e[1] = "div" THEN (IF a = Zero THEN Zero ELSE RDiv(a, b))
                 ELSE IF e[1] = "min" THEN RMin(a, b) ELSE RMax(a, b)
\* ---------- programs (C13 inside the engine): a parameter with an effect row -----------------------------------------------
\* w.pfn[k] = <<"prog", gate, baseline, << <<cap, targets, outcome>>, ... >>, fallback>>: gate and cap are indices of pseudo parameters chosen
\* by the environment (programs active or not; each program's capacity in people per year, a capacity overwrite), targets the set of
\* compartments the program reaches.  While programs are active the parameter takes
\*      Clip( Convert( baseline + sum over program combinations of weight * delta ) )
\* with coverage_i = min(1, cap_i / eligible_i) (1 when eligible_i <= cap_i, so 0/0 = 1), eligible_i = current size of the targets,
\* one or two programs (random interaction: independent coverage; a combination's delta is its member delta of largest magnitude),
\* Convert = outcome * source population / dt for number parameters, outcome / dt for probabilities and rates, outcome otherwise.
PopSizeOf(w, k, st) == LET ls == {l \in 1..NL(w) : w.lpar[l] = k /\ ~w.lflush[l]} IN RSumSet(ls, [l \in ls |-> RSumSeq(st[w.lsrc[l]])])
ProgVal(w, k, e, prev, rw, st, t) ==
   IF prev[e[2]] = Zero THEN (IF e[5][1] = "env" THEN rw[k] ELSE EvalE(w, e[5], prev, st, t))
   ELSE LET n == Len(e[4])
            cv == [i \in 1..n |-> LET cap == prev[e[4][i][1]]
                                       elig == RSumSet(e[4][i][2], [c \in e[4][i][2] |-> RSumSeq(st[c])])
                                   IN IF RLt(cap, elig) THEN RDiv(cap, elig) ELSE One]
            d == [i \in 1..n |-> RSub(e[4][i][3], e[3])]
            dboth == IF n = 2 THEN (IF RLt(RAbs(d[1]), RAbs(d[2])) THEN d[2] ELSE d[1]) ELSE Zero
            out == IF n = 1 THEN RAdd(e[3], RMul(cv[1], d[1]))
                   ELSE RAdd(e[3], RAdd(RAdd(RMul(RMul(cv[1], RSub(One, cv[2])), d[1]), RMul(RMul(RSub(One, cv[1]), cv[2]), d[2])), RMul(RMul(cv[1], cv[2]), dboth)))
            u == w.units[k]
        IN IF u = "number" THEN RDiv(RMul(out, PopSizeOf(w, k, st)), w.dt) ELSE IF u \in {"probability", "rate"} THEN RDiv(out, w.dt) ELSE out
RECURSIVE EffUpTo(_,_,_,_,_)
EffUpTo(w, rw, st, t, k) == IF k = 0 THEN <<>> ELSE
   LET prev == EffUpTo(w, rw, st, t, k - 1)
       v == IF w.pfn[k][1] = "env" THEN rw[k]
            ELSE IF w.pfn[k][1] = "prog" THEN ProgVal(w, k, w.pfn[k], prev, rw, st, t)
            ELSE EvalE(w, w.pfn[k], prev, st, t)
   IN Append(prev, ClipL(v, w.plim[k]))
Eff(w, rw, st, k) == EffUpTo(w, rw, st, RAdd(<<2000, 1>>, RMul(RInt(k), w.dt)), Len(w.units))

\* ---------- Convert: parameter value -> per-step fraction (or amount for a source) ----------------
Conv(w,pv,st,p) ==
  LET v == RClamp0(pv[p])  u == w.units[p] IN
  IF v = Zero THEN Zero
  ELSE IF u \in {"probability","rate"} THEN RDiv(RMul(v, w.dt), w.tscale[p])
  ELSE IF u = "duration" THEN RDiv(w.dt, RMul(v, w.tscale[p]))
  ELSE IF u = "number" THEN
       LET amt == RDiv(RMul(v,w.dt), w.tscale[p])
           ls == ParLinks(w,p)
           fromSource == \E l \in ls : w.kind[w.lsrc[l]] = "source"
           pop == RSumSet(ls, [l \in ls |-> Tot(st[w.lsrc[l]])])
       IN IF fromSource THEN amt ELSE IF pop = Zero THEN Zero ELSE RDiv(amt,pop)
  ELSE v
Cache(w,pv,st) == [l \in 1..NL(w) |-> IF w.lpar[l] = 0 \/ w.lflush[l] \/ IsJ(w, w.lsrc[l]) THEN Zero ELSE Conv(w,pv,st,w.lpar[l])]

\* ---------- Resolve: fractions -> people, never more than present ---------------------------------
RowTot(w,ca,c,r) == LET ls == Outl(w,c) IN RSumSet(ls, [l \in ls |-> IF w.ltimed[l] /\ r = 1 THEN Zero ELSE ca[l]])
NRow(w,ca,st,c,r) == RMul(Resc(RowTot(w,ca,c,r)), st[c][r])
LinkRow(w,ca,st,l,r) == LET c == w.lsrc[l] IN
     IF w.lflush[l] THEN Zero
     ELSE IF w.ltimed[l] /\ r = 1 THEN Zero
     ELSE RMul(NRow(w,ca,st,c,r), ca[l])
FlushAmt(w,ca,st,c) == LET ls == {l \in Outl(w,c) : ~w.lflush[l]}
                           o1 == RSumSet(ls, [l \in ls |-> LinkRow(w,ca,st,l,1)])
                       IN RMax(Zero, RSub(st[c][1], o1))
Flow1(w,ca,st) == [l \in 1..NL(w) |->
     LET c == w.lsrc[l]  k == w.kind[c] IN
     IF k = "source" THEN <<ca[l]>>
     ELSE IF k = "normal" THEN <<LinkRow(w,ca,st,l,1)>>
     ELSE IF k = "timed" THEN
          IF w.lflush[l] THEN <<FlushAmt(w,ca,st,c)>>
          ELSE IF w.ltimed[l] THEN [r \in 1..Len(st[c]) |-> LinkRow(w,ca,st,l,r)]
          ELSE <<RSumSeq([r \in 1..Len(st[c]) |-> LinkRow(w,ca,st,l,r)])>>
     ELSE IF w.ltimed[l] THEN [r \in 1..w.rows[c] |-> Zero] ELSE <<Zero>>]

\* ---------- Balance: junctions pass on what they receive, in topological order --------------------
RowAt(f, r) == IF r <= Len(f) THEN f[r] ELSE Zero
RECURSIVE Bal(_,_,_,_)
Bal(w,pv,f,k) == IF k > Len(w.jorder) THEN f ELSE
   LET j == w.jorder[k]
       ins == Inl(w,j)
       outs == Outl(w,j)
       n == w.rows[j]                                     \* > 1 only inside a duration group
       inflow == [r \in 1..n |-> IF n = 1 THEN RSumSet(ins, [l \in ins |-> Tot(f[l])])
                                          ELSE RSumSet(ins, [l \in ins |-> RowAt(f[l], r)])]
       fr == [l \in outs |-> IF w.lpar[l] = 0 THEN Zero ELSE RClamp0(pv[w.lpar[l]])]      \* a negative proportion moves nobody (never a reverse flow)
       tot == RSumSet(outs, fr)
       f2 == IF w.kind[j] = "junction"
             THEN [l \in 1..NL(w) |-> IF l \in outs THEN [r \in 1..n |-> IF tot = Zero THEN Zero ELSE RDiv(RMul(inflow[r], fr[l]), tot)] ELSE f[l]]
             ELSE LET sc == Resc(tot)
                      frs == [l \in outs |-> RMul(fr[l], sc)]
                      assigned == [r \in 1..n |-> RSumSet(outs, [l \in outs |-> RMul(inflow[r], frs[l])])]
                  IN [l \in 1..NL(w) |-> IF l \in outs
                        THEN (IF w.lpar[l] = 0 /\ RLt(tot, One) THEN [r \in 1..n |-> RSub(inflow[r], assigned[r])]
                                                                  ELSE [r \in 1..n |-> RMul(inflow[r], frs[l])])
                        ELSE f[l]]
   IN Bal(w,pv,f2,k+1)
\* a plain junction that receives people while all its proportions are zero is ill-posed (0/0): excluded by C01's domain
IllPosed(w,pv,f) == \E j \in 1..NC(w) : w.kind[j] = "junction" /\
      LET outs == Outl(w,j)  ins == Inl(w,j)
      IN RSumSet(outs, [l \in outs |-> RClamp0(pv[w.lpar[l]])]) = Zero /\ RLt(Zero, RSumSet(ins, [l \in ins |-> Tot(f[l])]))

\* ---------- UpdateComps ---------------------------------------------------------------------------
OutRow(w,ca,st,c,r) == LET outs == Outl(w,c) IN
      RAdd(RSumSet(outs, [l \in outs |-> LinkRow(w,ca,st,l,r)]), IF r = 1 THEN FlushAmt(w,ca,st,c) ELSE Zero)
StepComp(w,ca,st,f,c) ==
   LET k == w.kind[c]  ins == Inl(w,c)  outs == Outl(w,c) IN
   IF k \in {"source","junction","resjunction"} THEN st[c]
   ELSE IF k = "sink" THEN <<RAdd(st[c][1], RSumSet(ins, [l \in ins |-> Tot(f[l])]))>>
   ELSE IF k = "normal" THEN <<RClamp0(RAdd(RSub(st[c][1], RSumSet(outs, [l \in outs |-> Tot(f[l])])), RSumSet(ins, [l \in ins |-> Tot(f[l])])))>>
   ELSE \* timed: subtract per-row outflow, add duration-preserving inflow row-wise, shift, other inflow into the last row
     LET n == Len(st[c])
         tin == {l \in ins : w.ltimed[l]}
         oin == ins \ tin
         addin(l,r) == LET m == Len(f[l]) IN
                         RAdd(IF r <= m THEN f[l][r] ELSE Zero,
                              IF r = n /\ m > n THEN RSumSeq(SubSeq(f[l], n+1, m)) ELSE Zero)
         tmp == [r \in 1..n |-> RAdd(RSub(st[c][r], OutRow(w,ca,st,c,r)), RSumSet(tin, [l \in tin |-> addin(l,r)]))]
         sh == IF n = 1 THEN tmp ELSE [r \in 1..n |-> IF r < n THEN tmp[r+1] ELSE Zero]
         other == RSumSet(oin, [l \in oin |-> Tot(f[l])])
     IN [r \in 1..n |-> RClamp0(IF r = n THEN RAdd(sh[r], other) ELSE sh[r])]

\* ---------- InitialFlush: people placed in junctions by the initial conditions ---------------------
AddTo(w, st, c, amt) == IF w.kind[c] = "timed" THEN [st EXCEPT ![c] = Uniform(RAdd(Tot(st[c]), amt), Len(st[c]))]
                        ELSE [st EXCEPT ![c] = <<RAdd(st[c][1], amt)>>]
RECURSIVE AddAll(_,_,_,_)
AddAll(w, st, ls, amt) == IF ls = {} THEN st ELSE
     LET l == CHOOSE x \in ls : TRUE IN AddAll(w, AddTo(w, st, w.ldst[l], amt[l]), ls \ {l}, amt)
RECURSIVE Flush(_,_,_,_)
Flush(w,pv,st,k) == IF k > Len(w.jorder) THEN st ELSE
   LET j == w.jorder[k]  x == st[j][1]  outs == Outl(w,j)
       fr == [l \in outs |-> IF w.lpar[l] = 0 THEN Zero ELSE RClamp0(pv[w.lpar[l]])]      \* a negative proportion moves nobody (never a reverse flow)
       tot == RSumSet(outs, fr)
   IN IF ~RLt(Zero, x) THEN Flush(w,pv,st,k+1)
      ELSE LET amt == IF w.kind[j] = "junction" THEN [l \in outs |-> RDiv(RMul(x, fr[l]), tot)]
                      ELSE IF RLt(tot, One)
                           THEN [l \in outs |-> IF w.lpar[l] = 0 THEN RSub(x, RSumSet(outs, [m \in outs |-> RMul(x, fr[m])])) ELSE RMul(x, fr[l])]
                           ELSE [l \in outs |-> RDiv(RMul(x, fr[l]), tot)]
               st2 == AddAll(w, st, outs, amt)
           IN Flush(w, pv, [st2 EXCEPT ![j] = <<Zero>>], k+1)
FlushIllPosed(w,pv,st) == \E j \in 1..NC(w) : w.kind[j] = "junction" /\ RLt(Zero, st[j][1]) /\
      LET outs == Outl(w,j) IN RSumSet(outs, [l \in outs |-> RClamp0(pv[w.lpar[l]])]) = Zero

\* ==================================================================================================
W == Worlds[wi]
Init == /\ wi \in 1..Len(Worlds)
        /\ stock \in ProdSeq(Worlds[wi].grid) /\ st0 = stock
        /\ ti = 0 /\ cache = <<>> /\ flow = <<>> /\ hist = <<>> /\ obs = ""
        /\ IF Mode = "r1" THEN phase = "pars" /\ raw \in ProdSeq(Worlds[wi].dom) /\ pval = Eff(Worlds[wi], raw, stock, 0)
                          ELSE phase = "built" /\ pval = <<>> /\ raw = <<>>

\* r2 start-up: parameters at index 0, initial flush, parameters again (environment values are data: unchanged)
UpdatePars0 == /\ phase = "built"
               /\ raw' \in {rw \in ProdSeq(W.dom) : ~FlushIllPosed(W, Eff(W, rw, stock, 0), stock)}
               /\ pval' = Eff(W, raw', stock, 0)
               /\ phase' = "pars0" /\ UNCHANGED <<wi, ti, stock, cache, flow, hist, obs, st0>>
InitialFlush == /\ phase = "pars0"
                /\ stock' = Flush(W, pval, stock, 1)
                /\ phase' = "flushed" /\ UNCHANGED <<wi, ti, pval, cache, flow, hist, obs, st0, raw>>
UpdatePars0b == /\ phase = "flushed"                                  \* functions of the state are re-evaluated on the flushed state; data values stay
                /\ pval' = Eff(W, raw, stock, 0)
                /\ phase' = "pars" /\ UNCHANGED <<wi, ti, stock, cache, flow, hist, obs, st0, raw>>

UpdateLinks == /\ phase = "pars"
               /\ LET ca == Cache(W, pval, stock)
                      f == Bal(W, pval, Flow1(W, ca, stock), 1)
                  IN cache' = ca /\ flow' = f
               /\ phase' = "links" /\ UNCHANGED <<wi, ti, stock, pval, hist, obs, st0, raw>>
UpdateComps == /\ phase = "links" /\ ti < K
               /\ LET nx == [c \in 1..NC(W) |-> StepComp(W, cache, stock, flow, c)]
                      h2 == Append(hist, [pv |-> pval, rw |-> raw, st |-> stock, fl |-> flow, ca |-> cache, ill |-> IllPosed(W, pval, flow)])
                  IN /\ stock' = nx /\ hist' = h2
                     /\ obs' = IF ti + 1 = K THEN ToJson([w |-> W.id, init |-> st0, hist |-> h2, final |-> nx]) ELSE ""
               /\ ti' = ti + 1
               /\ phase' = IF ti + 1 = K THEN "done" ELSE "comps"
               /\ UNCHANGED <<wi, pval, cache, flow, st0, raw>>
UpdatePars == /\ phase = "comps"
              /\ raw' \in ProdSeq(W.dom)
              /\ pval' = Eff(W, raw', stock, ti)
              /\ phase' = "pars" /\ UNCHANGED <<wi, ti, stock, cache, flow, hist, obs, st0>>
Next == UpdatePars0 \/ InitialFlush \/ UpdatePars0b \/ UpdateLinks \/ UpdateComps \/ UpdatePars
Spec == Init /\ [][Next]_vars

\* ==================================================================================================
\* Properties.  WellPosed restricts to C01's domain (plain junction with all-zero proportions excluded).
WellPosed == ~IllPosed(W, pval, flow)
InF(c)  == LET ls == Inl(W,c)  IN RSumSet(ls, [l \in ls |-> Tot(flow[l])])
OutF(c) == LET ls == Outl(W,c) IN RSumSet(ls, [l \in ls |-> Tot(flow[l])])
NonSource == {c \in 1..NC(W) : W.kind[c] # "source"}
People(st) == RSumSet(NonSource, [c \in NonSource |-> Tot(st[c])])
SrcOut == LET ls == {l \in 1..NL(W) : W.kind[W.lsrc[l]] = "source"} IN RSumSet(ls, [l \in ls |-> Tot(flow[l])])

\* C01 ---------------------------------------------------------------------------------------------
C01_Balance == [][(phase = "links" /\ phase' \in {"comps","done"} /\ WellPosed) =>
                    \A c \in NonSource : Tot(stock'[c]) = RSub(RAdd(Tot(stock[c]), InF(c)), OutF(c))]_vars
\* (worlds whose many prime denominators overflow 32 bits in the grand total carry glob = FALSE; Balance is still checked there)
C01_Global  == [][(phase = "links" /\ phase' \in {"comps","done"} /\ WellPosed /\ W.glob) => People(stock') = RAdd(People(stock), SrcOut)]_vars
C01_JunctionPass == (phase = "links" /\ WellPosed) => \A c \in 1..NC(W) : IsJ(W,c) => InF(c) = OutF(c)
C01_FlushConserves == [][(phase = "pars0" /\ phase' = "flushed") => People(stock') = People(stock)]_vars
\* the max(0, .) guards of the code are dead in exact arithmetic, so they cannot create people
C01_ClipNeverFires == (phase = "links" /\ WellPosed) => \A c \in 1..NC(W) :
      /\ W.kind[c] = "normal" => RLe(Zero, RAdd(RSub(stock[c][1], OutF(c)), InF(c)))
      /\ W.kind[c] = "timed" => \A r \in 1..Len(stock[c]) : RLe(OutRow(W,cache,stock,c,r), stock[c][r])

\* C02 ---------------------------------------------------------------------------------------------
C02_NonNeg == /\ \A c \in 1..Len(stock) : \A r \in 1..Len(stock[c]) : RLe(Zero, stock[c][r])
              /\ (phase = "links" /\ WellPosed) => \A l \in 1..Len(flow) : \A r \in 1..Len(flow[l]) : RLe(Zero, flow[l][r])
C02_NoOverdraw == (phase = "links" /\ WellPosed) => \A c \in 1..NC(W) : W.kind[c] \in {"normal","timed"} => RLe(OutF(c), Tot(stock[c]))
\* competing outflows keep their ratios (per row for timed compartments; row 1 excludes duration-preserving links)
C02_Ratio == phase = "links" => \A c \in 1..NC(W) : W.kind[c] \in {"normal","timed"} =>
      \A l1, l2 \in {l \in Outl(W,c) : ~W.lflush[l]} : \A r \in 1..Len(stock[c]) :
          ((W.ltimed[l1] \/ W.ltimed[l2]) /\ r = 1) \/
          RMul(LinkRow(W,cache,stock,l1,r), cache[l2]) = RMul(LinkRow(W,cache,stock,l2,r), cache[l1])
C02_NegZero == phase = "links" => \A p \in 1..NP(W) : RLt(pval[p], Zero) =>
      \A l \in ParLinks(W,p) : Tot(flow[l]) = Zero

\* C04 ---------------------------------------------------------------------------------------------
C04_JEmpty == phase \notin {"built","pars0"} => \A c \in 1..NC(W) : IsJ(W,c) => Tot(stock[c]) = Zero
C04_JSplit == (phase = "links" /\ WellPosed) => \A j \in 1..NC(W) : IsJ(W,j) =>
      LET outs == Outl(W,j)
          fr == [l \in outs |-> IF W.lpar[l] = 0 THEN Zero ELSE RClamp0(pval[W.lpar[l]])]      \* negative proportions count as zero (C02)
          tot == RSumSet(outs, fr)
          inflow == InF(j)
      IN \A l \in outs :
           IF W.kind[j] = "junction" THEN RMul(Tot(flow[l]), tot) = RMul(inflow, fr[l])
           ELSE IF W.lpar[l] = 0 THEN Tot(flow[l]) = RMul(inflow, RMax(Zero, RSub(One, tot)))
           ELSE Tot(flow[l]) = RDiv(RMul(inflow, fr[l]), RMax(One, tot))

\* C06 ---------------------------------------------------------------------------------------------
\* every parameter value that drives a flow or feeds a dependent parameter lies inside its limits
C06_InLimits == pval # <<>> => \A p \in 1..NP(W) : (W.plim[p][1] = NoLim \/ RLe(W.plim[p][1], pval[p])) /\ (W.plim[p][2] = NoLim \/ RLe(pval[p], W.plim[p][2]))

\* C10 ---------------------------------------------------------------------------------------------
\* restarting from a saved state: the start-up sequence of a new run (parameters, initial flush, parameters, links) applied
\* to a state that has already been flushed changes nothing, so the saved state determines the continuation
C10_StartupNoop == (phase \notin {"built", "pars0"} /\ pval # <<>>) => Flush(W, pval, stock, 1) = stock

\* C05 ---------------------------------------------------------------------------------------------
C05_Rows == \A c \in 1..NC(W) : W.kind[c] = "timed" => (Len(stock[c]) = Rows(W,c) /\ W.rows[c] = Rows(W,c))
\* the shift relation: row r at the next step is row r+1 minus its outflows plus duration-preserving arrivals;
\* everybody still in row 1 leaves (flush = row 1 - other outflows of row 1); D < dt => one row, emptied every step
C05_Flush == (phase = "links") => \A c \in 1..NC(W) : W.kind[c] = "timed" => OutRow(W,cache,stock,c,1) = stock[c][1]
\* ---- temporal C05 properties over the recorded history (r2) -------------------------------------
\* hist[s] holds the state at index s-1 and the flows of the step that starts there.
Group(g) == {c \in 1..NC(W) : W.grp[c] = g}
Groups == {W.grp[c] : c \in 1..NC(W)} \ {0}
GN(g) == LET c == CHOOSE c \in Group(g) : W.kind[c] = "timed" IN W.rows[c]
\* people entering the group from outside it (they start at elapsed time 0, in the last row)
Arrivals(g, h) == LET ls == {l \in 1..NL(W) : W.ldst[l] \in Group(g) /\ ~W.ltimed[l]} IN RSumSet(ls, [l \in ls |-> Tot(h.fl[l])])
\* people leaving the group other than by the timed outflow
Leaves(g, h) == LET ls == {l \in 1..NL(W) : W.lsrc[l] \in Group(g) /\ ~W.ltimed[l] /\ ~W.lflush[l]} IN RSumSet(ls, [l \in ls |-> Tot(h.fl[l])])
Flushed(g, h) == LET ls == {l \in 1..NL(W) : W.lsrc[l] \in Group(g) /\ W.lflush[l]} IN RSumSet(ls, [l \in ls |-> Tot(h.fl[l])])
Occupancy(g, st) == LET cs == Group(g) IN RSumSet(cs, [c \in cs |-> Tot(st[c])])
\* initial occupants not yet expired after t steps: those in rows > t
InitShare(g, t) == LET cs == {c \in Group(g) : W.kind[c] = "timed"} IN
      RSumSet(cs, [c \in cs |-> RSumSeq([r \in 1..Len(hist[1].st[c]) |-> IF r > t THEN hist[1].st[c][r] ELSE Zero])])
\* a cohort that arrives with the flows of step s and meets no other outflow leaves exactly with the flush of step s+n
C05_OnTime == \A g \in Groups : \A s \in 1..Len(hist) :
      (s + GN(g) <= Len(hist) /\ \A u \in (s+1)..(s+GN(g)) : Leaves(g, hist[u]) = Zero /\ ~hist[u].ill)
         => \* everything flushed at step s+n that is not part of the initial occupants arrived at step s
            Flushed(g, hist[s+GN(g)]) = Arrivals(g, hist[s])
\* nobody stays longer than n steps: occupancy <= arrivals of the last n steps + unexpired initial share
C05_Bound == (Len(hist) >= 1 /\ phase \in {"comps","done"}) => \A g \in Groups :
      LET t == Len(hist)  n == GN(g) IN
      RLe(Occupancy(g, stock), RAdd(RSumSeq([k \in 1..n |-> IF t - k + 1 >= 1 THEN Arrivals(g, hist[t-k+1]) ELSE Zero]), InitShare(g, t)))
\* and never earlier: whatever is flushed at step u had arrived n steps before or belongs to initial row u
C05_NotEarly == \A g \in Groups : \A u \in 1..Len(hist) :
      LET n == GN(g)
          cs == {c \in Group(g) : W.kind[c] = "timed"}
          init == IF u <= n THEN RSumSet(cs, [c \in cs |-> IF u <= Len(hist[1].st[c]) THEN hist[1].st[c][u] ELSE Zero]) ELSE Zero
      IN RLe(Flushed(g, hist[u]), RAdd(init, IF u > n THEN Arrivals(g, hist[u-n]) ELSE Zero))
====
