---- MODULE FuncParseTrace ----
(* Direction code -> spec for C19: what parse_function did with every rendered string.                           *)
(*  [id, kind |-> "syn", class, outcome ("accepted" | "rejected"), sidefx]                                        *)
(*  [id, kind |-> "ev", deps, odeps, vals |-> << [v (rational or Err), ok, o, oa] >> ]   scalar o and array element oa *)
(*  [id, kind |-> "scale", a, b]   a quotient of two names at an environment and at the same environment times 2^-k (exact in floats)   *)
EXTENDS Rat, Big, TLC, Json, IOUtils, FiniteSets
Trace == JsonDeserialize(IOEnv.TRACE_FILE)
VARIABLES i, bad
Err == <<0, 0>>
SynFailing(e) == (IF e.class = "reject" /\ e.outcome # "rejected" THEN {"MustReject"} ELSE {})
            \cup (IF e.class = "accept" /\ e.outcome # "accepted" THEN {"MustAccept"} ELSE {})
            \cup (IF e.sidefx THEN {"NoSideEffect"} ELSE {})
SeqSet(s) == {s[k] : k \in 1..Len(s)}
EvFailing(e) == (IF SeqSet(e.deps) = SeqSet(e.odeps) THEN {} ELSE {"Deps"})
           \cup (IF \E k \in 1..Len(e.vals) : e.vals[k].v # Err /\ (~e.vals[k].ok \/ ~RatClose(e.vals[k].v, e.vals[k].o, K1e9, 8)) THEN {"Value"} ELSE {})
           \cup (IF \E k \in 1..Len(e.vals) : e.vals[k].v # Err /\ e.vals[k].ok /\ e.vals[k].o # e.vals[k].oa THEN {"ArrayScalar"} ELSE {})
Failing(e) == IF e.kind = "syn" THEN SynFailing(e) ELSE IF e.kind = "scale" THEN (IF e.a = e.b THEN {} ELSE {"DivScaleFree"}) ELSE EvFailing(e)
Init == i = 1 /\ bad = {}
Next == /\ i <= Len(Trace)
        /\ bad' = IF Cardinality(bad) > 60 THEN bad ELSE bad \cup {<<Trace[i].id, c>> : c \in Failing(Trace[i])}
        /\ i' = i + 1
Spec == Init /\ [][Next]_<<i, bad>>
Verdict == i > Len(Trace) => bad = {}
Consumed == TLCGet("stats").diameter - 1 = Len(Trace)
====
