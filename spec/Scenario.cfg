SPECIFICATION Spec
CONSTANTS
 Years <- MCYears
 Vals <- MCVals
 Grids <- MCGrids
 Methods <- MCMethods
INVARIANT Causal
INVARIANT Takes
INVARIANT SteppedCausal
CHECK_DEADLOCK FALSE
