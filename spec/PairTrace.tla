---- MODULE PairTrace ----
(* Paired-run comparison (C09, C10, C16): two executions that the property says must coincide on a set of outputs. *)
(* [id, tol ("exact" | "1e-12" | "1e-9"), a, b]   a, b: sequences of observed numbers (limb encoded) of equal length   *)
(* [id, tol, na, nb] with na # nb flags arrays of different length.                                                    *)
EXTENDS Big, Integers, Sequences, TLC, Json, IOUtils, FiniteSets
Trace == ndJsonDeserialize(IOEnv.TRACE_FILE)
VARIABLES i, bad
Same(e, k) == IF e.tol = "exact" THEN e.a[k] = e.b[k]
              ELSE IF e.tol = "1e-12" THEN SClose(e.a[k], e.b[k], K1e12, 4)
              ELSE SClose(e.a[k], e.b[k], K1e9, 4)
Failing(e) == IF Len(e.a) # Len(e.b) THEN {"Shape"} ELSE IF \A k \in 1..Len(e.a) : Same(e, k) THEN {} ELSE {"Differs"}
Init == i = 1 /\ bad = {}
Next == /\ i <= Len(Trace)
        /\ bad' = IF Cardinality(bad) > 60 THEN bad ELSE bad \cup {<<Trace[i].id, c>> : c \in Failing(Trace[i])}
        /\ i' = i + 1
Spec == Init /\ [][Next]_<<i, bad>>
Verdict == i > Len(Trace) => bad = {}
Consumed == TLCGet("stats").diameter - 1 = Len(Trace)
====
