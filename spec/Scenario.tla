---- MODULE Scenario ----
(***************************************************************************************************)
(* C09: interventions have no effect before they start.                                             *)
(* The constructions that turn an intervention dated Y into simulation inputs, in exact arithmetic:  *)
(*  - ParameterScenario.get_parset: the baseline series is sampled at the simulation times before Y, *)
(*    the overwrite points are inserted, and the simulation times from Y on are filled by            *)
(*    interpolating the new series (linear or stepped);                                              *)
(*  - ProgramSet.get_alloc / get_capacities / get_prop_coverage: stepped ("previous") interpolation  *)
(*    of a dated series that also states the value in force before Y;                                *)
(*  - the program gate start_year <= t <= stop_year.                                                  *)
(* Causal: for every simulation time t < Y the value used equals the value without the intervention. *)
(* TLC checks it for all series / grids / Y (on and off the grid) of the constants; the harness runs  *)
(* paired simulations and PairTrace.tla compares every output at t < Y exactly.                       *)
(***************************************************************************************************)
EXTENDS Rat, TLC, FiniteSets, Json
CONSTANTS Years,        \* candidate data / overwrite years (rationals)
          Vals,         \* candidate values
          Grids,        \* set of <<start, dt, n>>: simulation time grids
          Methods       \* {"linear", "previous"}
VARIABLES grid, base, ow, method, obs
vars == <<grid, base, ow, method, obs>>
\* a time series is a set of <<t, v>> with distinct t, or a constant assumption <<"assumption", v>>
Times(s) == {p[1] : p \in s}
At(s, t) == (CHOOSE p \in s : p[1] = t)[2]
Before(s, t) == {u \in Times(s) : RLe(u, t)}
After(s, t) == {u \in Times(s) : RLe(t, u)}
MaxT(S) == CHOOSE u \in S : \A w \in S : RLe(w, u)
MinT(S) == CHOOSE u \in S : \A w \in S : RLe(u, w)
\* TimeSeries.interpolate: exact at entered years, linear in between, constant outside the data range
Linear(s, t) == IF t \in Times(s) THEN At(s, t)
                ELSE IF Before(s, t) = {} THEN At(s, MinT(Times(s)))
                ELSE IF After(s, t) = {} THEN At(s, MaxT(Times(s)))
                ELSE LET a == MaxT(Before(s, t))  b == MinT(After(s, t))
                     IN RAdd(At(s, a), RMul(RSub(At(s, b), At(s, a)), RDiv(RSub(t, a), RSub(b, a))))
Previous(s, t) == IF Before(s, t) = {} THEN At(s, MinT(Times(s))) ELSE At(s, MaxT(Before(s, t)))
Interp(s, t, m) == IF m = "linear" THEN Linear(s, t) ELSE Previous(s, t)
T(g, k) == RAdd(g[1], RMul(RInt(k), g[2]))
TVec(g) == {T(g, k) : k \in 0..g[3]}
\* ParameterScenario.get_parset for one parameter / population
Y == MinT(Times(ow))
ScenSeries == LET pre == {<<t, Linear(base, t)>> : t \in {u \in TVec(grid) : RLt(u, Y)}}
                  withow == {p \in pre : p[1] \notin Times(ow)} \cup ow
                  post == {<<t, Interp(withow, t, method)>> : t \in {u \in TVec(grid) : RLe(Y, u)}}
                  lo == IF post = {} THEN Y ELSE MinT(Times(post))
                  hi == IF post = {} THEN Y ELSE MaxT(Times(post))
              IN {p \in withow : RLt(p[1], lo) \/ RLt(hi, p[1])} \cup post            \* smooth(): points inside the smoothed range are replaced
Init == /\ grid \in Grids /\ method \in Methods
        /\ base \in {s \in SUBSET (Years \X Vals) : Cardinality(s) \in 1..2 /\ Cardinality(Times(s)) = Cardinality(s)}
        /\ ow = {} /\ obs = ""
Pick == /\ ow = {}
        /\ ow' \in {s \in SUBSET (Years \X Vals) : Cardinality(s) \in 1..2 /\ Cardinality(Times(s)) = Cardinality(s)}
        /\ obs' = "case" /\ UNCHANGED <<grid, base, method>>
Spec == Init /\ [][Pick]_vars
Causal == ow # {} => \A t \in TVec(grid) : RLt(t, Y) => Linear(ScenSeries, t) = Linear(base, t)
\* from Y on the scenario is in force: at an overwrite year that is a simulation time the value is the overwrite value
Takes == ow # {} => \A t \in TVec(grid) \cap Times(ow) : Linear(ScenSeries, t) = At(ow, t)
\* a dated program series that states the prior value: stepped interpolation gives the prior value at every t < Y
SteppedCausal == ow # {} => \A t \in TVec(grid) : \A v0 \in Vals :
                    RLt(t, Y) => Previous({<<MinT(TVec(grid)), v0>>} \cup {p \in ow : RLt(MinT(TVec(grid)), p[1])}, t) = v0 \/ ~RLt(MinT(TVec(grid)), Y)
====
