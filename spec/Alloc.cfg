SPECIFICATION Spec
CONSTANTS
  Sample = 0
  SampX <- MCNone
  SampX0 <- MCNone
  SampB <- MCNone
  NProg = 2
  Grid <- MCGrid
  Initials <- MCInitials2
  Totals <- MCTotals
  Factors <- MCFactors
  BoundPairs <- MCBoundPairs
INVARIANT UnresolvableSound
INVARIANT WitnessOK
CHECK_DEADLOCK FALSE
