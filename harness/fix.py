"""Exact conversion of IEEE doubles to the limb representation of spec/Big.tla (scale 2^60, base 2^15)."""
import math
from fractions import Fraction as Fr

B = 32768
SCALE = 60


class NonFinite(ValueError):
    pass


def fix(v):
    v = float(v)
    if not math.isfinite(v):
        raise NonFinite(repr(v))
    if v == 0:
        return {"s": 0, "m": []}
    q = int(abs(Fr(v)) * (1 << SCALE))  # floor of the magnitude
    if q == 0:
        return {"s": 0, "m": []}
    m = []
    while q:
        m.append(q % B)
        q //= B
    return {"s": 1 if v > 0 else -1, "m": m}


def unfix(d):
    q = 0
    for x in reversed(d["m"]):
        q = q * B + x
    return d["s"] * Fr(q, 1 << SCALE)


def fixseq(xs):
    return [fix(x) for x in xs]


def rat(x):
    x = Fr(x)
    return [x.numerator, x.denominator]
