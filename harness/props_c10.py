"""C10: restarting from a saved state continues the original trajectory (Engine.tla C10_StartupNoop + paired real runs)."""
import time
from fractions import Fraction as Fr

import numpy as np

from . import common as C
from . import engine as E
from . import fix as FX
from . import worlds as WD


def outputs(res, k0):
    """All output arrays of a result from time index k0 on, as {key: 1-d array} (rows of timed objects separately)."""
    out = {}
    for p in res.model.pops:
        for v in p.comps + p.characs + p.pars + p.links:
            if hasattr(v, "source"):
                key = "L:%s/%s->%s/%s:%s" % (v.source.pop.name, v.source.name, v.dest.pop.name, v.dest.name, v.parameter.name if v.parameter is not None else "-")
            else:
                key = "%s:%s/%s" % (type(v).__name__[0], p.name, v.name)
            rows = getattr(v, "_vals", None) if type(v).__name__ in ("TimedCompartment", "TimedLink") else None
            if rows is not None:
                for r in range(rows.shape[0]):
                    out["%s[%d]" % (key, r)] = np.asarray(rows[r, k0:], dtype=float)
            else:
                out[key] = np.asarray(v.vals[k0:], dtype=float)
    return out


def compare(records, index, rid, label, a, b, tol, drop_last_flow=True):
    """Append one record per output key comparing arrays a[key] and b[key]."""
    for key in sorted(set(a) | set(b)):
        if key not in a or key not in b:
            records.append(dict(id=rid, tol=tol, a=[FX.fix(0.0)], b=[]))
            index[rid] = dict(label=label, key=key, problem="output missing in one run")
            rid += 1
            continue
        x, y = a[key], b[key]
        n = min(len(x), len(y))
        if key.startswith("L:") or key.startswith("P:"):
            n = max(n - 1, 0)  # flows / parameters of the final index are not computed by a run
        x, y = x[:n], y[:n]
        ok = np.isfinite(x) & np.isfinite(y)
        if not np.all(np.isfinite(x) == np.isfinite(y)):
            records.append(dict(id=rid, tol=tol, a=[FX.fix(0.0)], b=[]))
            index[rid] = dict(label=label, key=key, problem="NaN pattern differs")
            rid += 1
            continue
        records.append(dict(id=rid, tol=tol, a=FX.fixseq(x[ok]), b=FX.fixseq(y[ok])))
        index[rid] = dict(label=label, key=key, a=[float(v) for v in x[:6]], b=[float(v) for v in y[:6]])
        rid += 1
    return rid


def restart_chain(at, settings_args, Fw, ps, progset, ins, ks, label, records, index, rid, spreadsheet=False):
    """Run the original, then restart at the time indices ks in turn (a restart of a restart ...)."""
    import sciris as sc

    start, end, dt = settings_args
    S = at.ProjectSettings(start, end, dt)
    res = at.run_model(S, Fw, ps, progset, ins)
    base_k = 0
    cur_res, cur_ps = res, ps
    for k in ks:
        year = float(cur_res.model.t[k - base_k])
        ps2 = sc.dcp(cur_ps)
        ps2.set_initialization(cur_res, year=year)
        tol = "1e-12"
        if spreadsheet:
            ss = ps2.calibration_spreadsheet()
            ps3 = sc.dcp(cur_ps)  # (in a chain this parameter set still carries the state saved for the previous restart: loading replaces it)
            ps3.load_calibration(ss)
            ps2 = ps3
            tol = "1e-9"
        S2 = at.ProjectSettings(year, float(res.model.t[-1]) - dt / 2, dt)  # half a step before the original end: the ceiling in the sim_end setter then lands on the original last grid point whatever the rounding
        res2 = at.run_model(S2, Fw, ps2, progset, ins)
        # (an end year that sits on the grid only up to rounding may give the restarted run one extra final step: the common part is compared)
        if abs(float(res2.model.t[0]) - year) > 1e-9 or len(res2.model.t) < len(res.model.t) - k:
            records.append(dict(id=rid, tol=tol, a=[FX.fix(0.0)], b=[]))
            index[rid] = dict(label=label, key="time vector", problem="restarted run has %d points, expected %d" % (len(res2.model.t), len(res.model.t) - k))
            rid += 1
            return rid
        n = len(res.model.t) - k
        if tol == "1e-12" and not np.array_equal(np.asarray(res.model.t[k:]), np.asarray(res2.model.t[:n])):
            tol = "1e-9"  # the two time grids differ in the last bit (linspace from another start): inputs interpolated in time differ accordingly
        rid = compare(records, index, rid, dict(restart_at_index=k, year=year, chain=list(ks), spreadsheet=spreadsheet, **label), outputs(res, k), outputs(res2, 0), tol)
        cur_res, cur_ps, base_k = res2, ps2, k
    return rid


def run(prop, tier):
    t0 = time.time()
    at = C.quiet_atomica()
    V = C.Verdict(prop)
    thorough = tier == "thorough"
    rng = np.random.default_rng(C.seed())
    cov = dict(states=0, transitions=0, traces_validated_against_impl=0, samples=[], exhaustive=True)
    # ---- P_spec: the start-up sequence is a no-op on a flushed state (all engine worlds, R1 and R2)
    W1 = WD.catalogue(tier, "r1")
    W2 = WD.catalogue_r2(tier)
    r1 = E.explore(W1, "r1", 1, E.R1_INV["C10"], [])
    r2 = E.explore_r2(W2, 20000 if thorough else 1500, E.R2_INV["C10"], [])
    # step-size variants of the catalogue worlds (thorough tier) that overflow 32-bit rationals are left out of the model checking by name (as in
    # the other engine checks); their paired real runs below are kept - those do not involve TLC's integers
    dropped = [wid for wid in r1["overflow"] if "_dt" in wid]
    if dropped:
        r1["overflow"] = [wid for wid in r1["overflow"] if wid not in dropped]
        cov["step_size_variants_left_out_overflow"] = dropped
    for r in (r1, r2):
        cov["states"] += r["states"]
        cov["transitions"] += r["transitions"]
        if r["overflow"]:
            raise C.MachineryError("32-bit overflow in worlds %s" % r["overflow"])
        if r["violated"]:
            raise C.MachineryError("specification property %s refuted in world %s:\n%s" % (r["violated"][0][1], r["violated"][0][0], r["violated"][0][2][-2000:]))
    # ---- paired real runs: generated worlds with time-varying parameters
    records, index = [], {}
    rid = 0
    K = 7
    nper = 6 if thorough else 2
    W3 = WD.catalogue_traceonly(tier)  # weekly / daily steps with durations of hundreds of steps: the saved state has to survive the 16 digits of a spreadsheet
    cov["worlds_paired_only"] = [w["id"] for w in W3]
    for w in W1 + W2 + W3:
        for rep in (range(nper) if w not in W3 else [1, 3][: 2 if thorough else 1]):
            dt = float(w["dt"])
            S = at.ProjectSettings(2000, 2000 + K * dt, dt)
            # parameters: constant in time (even repetitions) or drifting linearly between two values of the grid (odd repetitions)
            lo = [p["dom"][rng.integers(len(p["dom"]))] for p in w["pars"]]
            hi = [p["dom"][rng.integers(len(p["dom"]))] for p in w["pars"]]
            pv = []
            for k in range(K):
                row = []
                for i, p in enumerate(w["pars"]):
                    a, b = abs(float(lo[i])), abs(float(hi[i]))
                    # (program capacities and the programs' on / off gate become *stepped* series in the instructions: they are kept constant, because
                    #  a value that jumps exactly at a grid point is read differently when the restarted time grid differs in the last bit - see section 14)
                    if p["timed"] or rep % 2 == 0 or p.get("pseudo"):
                        row.append(Fr(lo[i]) if p["units"] == "proportion" or p["timed"] else Fr(a))
                    elif p["units"] == "proportion":
                        row.append(Fr(lo[i]) + (Fr(hi[i]) - Fr(lo[i])) * Fr(k, K))
                    else:
                        row.append(Fr(a + (min(b, 10 * a + 1) - a) * k / K))
                pv.append(row)
            Fw, ps = WD.build_parset(w, pv, S.tvec)
            st = [w["grid"][c["name"]][rng.integers(len(w["grid"][c["name"]]))] for c in w["comps"]]
            jit = float(rng.uniform(0.5, 1.5))
            WD.set_state(w, ps, [[Fr(float(x) * jit) for x in rows] for rows in st])
            try:
                chain = sorted(rng.choice(np.arange(1, K - 1), size=2, replace=False).tolist())
                pg_, ins_ = WD.build_programs(w, ps, pv, S.tvec)
                rid = restart_chain(at, (2000, 2000 + K * dt, dt), Fw, ps, pg_, ins_, chain, dict(world=w["id"], rep=rep), records, index, rid, spreadsheet=(rep % 2 == 1))
            except Exception as ex:
                V.violation("C10 restart raised %s world=%s" % (type(ex).__name__, w["id"].split("_dt")[0]), dict(world=w["id"], error=str(ex)[:300]))
    # ---- library models, with and without programs active before / after the restart year
    for name in (["udt", "tb_simple"] + (["hiv", "tb", "hypertension", "usdt"] if thorough else [])):
        P = at.demo(name, do_run=False)
        ps = P.parsets[0]
        if any(P.framework.pars["is derivative"] == "y"):
            continue
        s0, e0, dt = float(P.settings.sim_start), float(P.settings.sim_start) + (12 if thorough else 8), float(P.settings.sim_dt)
        n = int(round((e0 - s0) / dt))
        for prog in (False, True):
            pg = P.progsets[0] if (prog and P.progsets) else None
            if prog and pg is None:
                continue
            ins = at.ProgramInstructions(start_year=s0 + 3, alloc=pg) if pg is not None else None
            for chain in ([max(1, n // 5)], [n // 2, n // 2 + 3]):
                try:
                    rid = restart_chain(at, (s0, e0, dt), P.framework, ps, pg, ins, chain, dict(model=name, programs=prog), records, index, rid, spreadsheet=(len(chain) == 1 and not prog))
                except Exception as ex:
                    V.violation("C10 restart raised %s model=%s" % (type(ex).__name__, name), dict(model=name, error=str(ex)[:300]))
    bad, states = C.validate_batch(["Big", "PairTrace"], "PairTrace", records, ndjson=True, timeout=3000)
    cov["states"] += states
    cov["transitions"] += states
    cov["traces_validated_against_impl"] = len(records)
    for rid_, clause in bad:
        d = index[rid_]
        lab = d["label"]
        V.violation("C10 %s %s%s %s" % (clause, lab.get("world", lab.get("model", "")).split("_dt")[0], " spreadsheet" if lab.get("spreadsheet") else "", d["key"][0]), dict(clause=clause, **d))
    cov["samples"] = [index[0], index[len(index) // 2]]
    return V, cov, time.time() - t0
