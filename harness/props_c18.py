"""C18: input files are accepted and runnable, or rejected with the dedicated error (spec/Validate.tla)."""
import copy
import io
import time

import numpy as np

from . import common as C


def base_sheets():
    """The valid base framework 'sirj' of MCValidate.tla as {sheet: rows}."""
    S = {}
    S["Databook Pages"] = [["Datasheet Code Name", "Datasheet Title"], ["sv", "State"], ["pa", "Parameters"]]
    S["Compartments"] = [["Code Name", "Display Name", "Is Source", "Is Sink", "Is Junction", "Setup Weight", "Default Value", "Databook Page"],
                         ["src", "Births", "y", "n", "n", 0, None, None], ["sus", "Susceptible", "n", "n", "n", 1, None, "sv"], ["inf", "Infected", "n", "n", "n", 1, None, "sv"],
                         ["rcv", "Recovered", "n", "n", "n", 1, None, "sv"], ["jn", "Outcome junction", "n", "n", "y", 0, None, None], ["dead", "Dead", "n", "y", "n", 0, None, None]]
    names = ["src", "sus", "inf", "rcv", "jn", "dead"]
    M = {a: {b: None for b in names} for a in names}
    M["src"]["sus"] = "birth"
    M["sus"]["inf"] = "foi"
    M["inf"]["jn"] = "rec"
    M["jn"]["rcv"] = "split1"
    M["jn"]["dead"] = "split2"
    M["rcv"]["sus"] = "wane"
    for c in ("sus", "inf", "rcv"):
        M[c]["dead"] = "mort"
    S["Transitions"] = [["Transition Matrix"] + names] + [[a] + [M[a][b] for b in names] for a in names]
    S["Characteristics"] = [["Code Name", "Display Name", "Components", "Denominator", "Default Value", "Setup Weight", "Databook Page"],
                            ["alive", "Alive", "sus, inf, rcv", None, None, 0, None], ["prev", "Prevalence", "inf", "alive", None, 0, None]]
    S["Parameters"] = [["Code Name", "Display Name", "Format", "Timescale", "Default Value", "Minimum Value", "Maximum Value", "Function", "Databook Page"],
                       ["birth", "Births per year", "number", 1, 10, 0, None, None, "pa"], ["beta", "Transmissibility", None, None, 0.5, 0, None, None, "pa"],
                       ["foi", "Force of infection", "probability", 1, None, 0, None, "beta*inf/max(alive,1)", None], ["rec", "Recovery rate", "rate", 1, None, 0, None, None, "pa"],
                       ["split1", "Proportion recovering", "proportion", None, 0.9, 0, 1, None, "pa"], ["split2", "Proportion dying", "proportion", None, 0.1, 0, 1, None, "pa"],
                       ["wane", "Duration of immunity", "duration", 1, 5, 0, None, None, "pa"], ["mort", "Death rate", "rate", 1, 0.02, 0, None, None, "pa"]]
    S["Parameters"][0].append("Targetable")
    for r in S["Parameters"][1:]:
        r.append("y" if r[0] in ("rec", "mort") else "n")
    S["Cascades"] = [["Care cascade", "Constituents"], ["Everybody", "sus, inf, rcv"], ["Ever infected", "inf, rcv"], ["Recovered", "rcv"]]
    return S


def set_cell(rows, code, col, val):
    j = rows[0].index(col)
    for r in rows[1:]:
        if r[0] == code:
            r[j] = val
            return
    raise KeyError(code)


def _t_addcomp(S, code, disp, junction=False):
    S["Compartments"].append([code, disp, "n", "n", "y" if junction else "n", 0 if junction else 1, None, None if junction else "sv"])
    T = S["Transitions"]
    T[0].append(code)
    for r in T[1:]:
        r.append(None)
    T.append([code] + [None] * (len(T[0]) - 1))


def _t_link(S, a, b, p):
    T = S["Transitions"]
    j = T[0].index(b)
    for r in T[1:]:
        if r[0] == a:
            r[j] = p


def _t_addpar(S, code, disp, fmt, default, timed="n"):
    hdr = S["Parameters"][0]
    row = [None] * len(hdr)
    for k, v in (("Code Name", code), ("Display Name", disp), ("Format", fmt), ("Timescale", 1 if fmt in ("rate", "probability", "number", "duration") else None), ("Default Value", default),
                 ("Minimum Value", 0), ("Databook Page", "pa"), ("Targetable", "n"), ("Timed", timed)):
        row[hdr.index(k)] = v
    S["Parameters"].append(row)


def timed_framework(S, m):
    """Base 'sirt' of MCValidate.tla (sirj whose immunity lasts for the timed duration `wane`) with timed-structure mutation m."""
    S = copy.deepcopy(S)
    S["Parameters"][0].append("Timed")
    for r in S["Parameters"][1:]:
        r.append("y" if r[0] == "wane" else "n")
    hdr = S["Parameters"][0]

    def group2():
        _t_addcomp(S, "rcv2", "Recovered late")
        _t_link(S, "rcv2", "sus", "wane")
        _t_link(S, "rcv2", "dead", "mort")

    def junction():
        group2()
        _t_addcomp(S, "jt", "Timed junction", True)
        _t_addpar(S, "mv", "Move rate", "rate", 0.3)
        _t_addpar(S, "one", "All of them", "proportion", 1.0)
        _t_link(S, "rcv", "jt", "mv")
        _t_link(S, "jt", "rcv2", "one")

    if m == "t_none":
        pass
    elif m == "t_timed_rate":
        set_cell(S["Parameters"], "rec", "Timed", "y")
    elif m == "t_timed_targetable":
        set_cell(S["Parameters"], "wane", "Targetable", "y")
    elif m == "t_two_timed_outflows":
        _t_addpar(S, "wane2", "Second duration", "duration", 3, "y")
        _t_link(S, "rcv", "inf", "wane2")
    elif m == "t_timed_from_junction":
        _t_addpar(S, "dj", "Junction duration", "duration", 1, "y")
        _t_link(S, "jn", "sus", "dj")
    elif m == "t_timed_from_source":
        _t_addpar(S, "dj", "Source duration", "duration", 1, "y")
        _t_link(S, "src", "inf", "dj")
    elif m == "t_group_two_comps":
        group2()
        _t_addpar(S, "mv", "Move rate", "rate", 0.3)
        _t_link(S, "rcv", "rcv2", "mv")
    elif m == "t_flush_into_own_group_a":  # the flushing compartment comes first in the matrix
        group2()
        _t_link(S, "rcv", "sus", None)
        _t_link(S, "rcv", "rcv2", "wane")
    elif m == "t_flush_into_own_group_b":  # the flushing compartment comes last
        group2()
        _t_addpar(S, "mv", "Move rate", "rate", 0.3)
        _t_link(S, "rcv", "rcv2", "mv")
        _t_link(S, "rcv2", "sus", None)
        _t_link(S, "rcv2", "rcv", "wane")
    elif m == "t_junction_in_group":
        junction()
    elif m == "t_junction_mixed_inflows":
        junction()
        _t_addpar(S, "mv2", "Other move", "rate", 0.1)
        _t_link(S, "inf", "jt", "mv2")
    elif m == "t_junction_mixed_outflows":
        junction()
        _t_addpar(S, "two", "Some of them", "proportion", 0.4)
        _t_link(S, "jt", "sus", "two")
    elif m == "t_junction_flush_back":
        group2()
        _t_addcomp(S, "jt", "Timed junction", True)
        _t_addpar(S, "one", "All of them", "proportion", 1.0)
        _t_link(S, "rcv", "sus", None)
        _t_link(S, "rcv", "jt", "wane")
        _t_link(S, "jt", "rcv2", "one")
    elif m == "t_junction_flush_out":
        _t_addcomp(S, "jt", "Timed junction", True)
        _t_addpar(S, "one", "All of them", "proportion", 1.0)
        _t_link(S, "rcv", "sus", None)
        _t_link(S, "rcv", "jt", "wane")
        _t_link(S, "jt", "sus", "one")
    else:
        raise KeyError(m)
    return S


def mutate_framework(S, m):
    if m.startswith("t_"):
        return timed_framework(S, m)
    S = copy.deepcopy(S)
    if m in ("none", "blank_optional_column") or m.startswith("databook_") or m.startswith("progbook_"):
        if m == "blank_optional_column":
            for r in S["Compartments"][1:]:  # the defaults (1 if in the databook, else 0) coincide with the values entered in the base file
                r[S["Compartments"][0].index("Setup Weight")] = None
            for r in S["Characteristics"][1:]:
                r[S["Characteristics"][0].index("Setup Weight")] = None
        return S
    P, T = S["Parameters"], S["Transitions"]
    tcol = lambda n: T[0].index(n)
    trow = lambda n: [r for r in T[1:] if r[0] == n][0]
    if m == "add_output_parameter":
        P.append(["extra", "Extra output", None, None, None, None, None, "max(sus, 1)", None, "n"])
    elif m == "undefined_compartment_in_transition":
        T[0].append("nowhere")
        for r in T[1:]:
            r.append("rec" if r[0] == "sus" else None)
    elif m == "undefined_parameter_in_transition":
        trow("inf")[tcol("sus")] = "noparam"
    elif m == "duplicate_code_name":
        S["Compartments"].append(["rec", "Duplicate of a parameter name", "n", "n", "n", 0, None, None])
        T[0].append("rec")
        for r in T[1:]:
            r.append(None)
        T.append(["rec"] + [None] * (len(T[0]) - 1))
    elif m == "duplicate_display_name":
        set_cell(P, "mort", "Display Name", "Recovery rate")
    elif m == "reserved_name":
        P.append(["t", "Time parameter", None, None, None, None, None, None, None, "n"])
    elif m == "junction_outflow_not_proportion":
        set_cell(P, "split1", "Format", "probability")
        set_cell(P, "split1", "Timescale", 1)
    elif m == "proportion_on_ordinary_link":
        set_cell(P, "rec", "Format", "proportion")
        set_cell(P, "rec", "Timescale", None)
    elif m == "source_outflow_not_number":
        set_cell(P, "birth", "Format", "probability")
    elif m == "sink_outflow":
        trow("dead")[tcol("sus")] = "rec"
    elif m == "inflow_to_source":
        trow("inf")[tcol("src")] = "rec"
    elif m == "self_reference":
        set_cell(P, "foi", "Function", "beta*inf/max(alive,1) + foi*0")
    elif m == "cyclic_functions":
        set_cell(P, "beta", "Function", "foi*2")
    elif m == "unsupported_call":
        set_cell(P, "foi", "Function", "beta*inf/foo(alive,1)")
    elif m == "undefined_dependency":
        set_cell(P, "foi", "Function", "beta*inf/max(alive,1) + ghost")
    elif m == "undefined_characteristic_component":
        set_cell(S["Characteristics"], "alive", "Components", "sus, inf, rcv, ghost")
    elif m == "cyclic_characteristics":
        S["Characteristics"].append(["c1", "Circular one", "c2, sus", None, None, 0, None])
        S["Characteristics"].append(["c2", "Circular two", "c1, inf", None, None, 0, None])
    elif m == "junction_cycle":
        S["Compartments"].append(["jn2", "Second junction", "n", "n", "y", 0, None, None])
        T[0].append("jn2")
        for r in T[1:]:
            r.append(">" if r[0] == "jn" else None)
        row = ["jn2"] + [None] * (len(T[0]) - 1)
        row[tcol("jn")] = ">"
        row[tcol("rcv")] = "split1"
        T.append(row)
    elif m == "residual_from_ordinary_compartment":
        trow("sus")[tcol("rcv")] = ">"
    elif m in ("add_residual_outflow", "two_residual_outflows"):
        trow("jn")[tcol("sus")] = ">"
        if m == "two_residual_outflows":
            trow("jn")[tcol("inf")] = ">"
    elif m == "unnested_cascade":
        S["Cascades"] = [["Care cascade", "Constituents"], ["Not yet recovered", "sus, inf"], ["Ever infected", "inf, rcv"]]
    elif m == "unnested_cascade_later_stage":
        S["Cascades"] = [["Care cascade", "Constituents"], ["Everybody", "sus, inf, rcv"], ["Infected", "inf"], ["Recovered", "rcv"]]
    elif m == "capitalised_units":
        set_cell(P, "birth", "Format", "Number")
        set_cell(P, "rec", "Format", "Rate")
        set_cell(P, "wane", "Format", "Duration")
    elif m == "characteristic_on_unlisted_page":
        set_cell(S["Characteristics"], "alive", "Databook Page", "chpage")
    elif m == "delete_transitions_sheet":
        del S["Transitions"]
    elif m == "delete_parameters_sheet":
        del S["Parameters"]
    elif m == "delete_format_column":
        j = P[0].index("Format")
        for r in P:
            del r[j]
    elif m == "delete_code_name_column":
        for r in S["Compartments"]:
            del r[0]
    elif m == "delete_optional_sheet":
        del S["Databook Pages"]
    else:
        raise ValueError(m)
    return S


def write_framework(S):
    import sciris as sc
    import xlsxwriter

    f = io.BytesIO()
    wb = xlsxwriter.Workbook(f)
    wb.set_properties({"category": "atomica:framework"})
    for name, rows in S.items():
        ws = wb.add_worksheet(name)
        for i, r in enumerate(rows):
            for j, c in enumerate(r):
                if c is not None:
                    ws.write(i, j, c)
    wb.close()
    return sc.Spreadsheet(f)


def dedicated(ex):
    return type(ex).__name__ in ("InvalidFramework", "InvalidCascade", "InvalidDatabook", "InvalidProgramBook")


def mutate_databook(at, Fw, D, m):
    """Returns a spreadsheet of databook D with defect m (cell-level edits with openpyxl)."""
    import openpyxl
    import sciris as sc

    ss = D.to_spreadsheet()
    wb = openpyxl.load_workbook(io.BytesIO(ss.blob), data_only=False)
    # openpyxl does not keep cached formula results: replace the references to the population sheet by their values
    import re as _re

    for ws_ in wb.worksheets:
        for row in ws_.iter_rows():
            for c in row:
                if isinstance(c.value, str) and c.value.startswith("='"):
                    m_ = _re.match(r"='([^']+)'!\$?([A-Z]+)\$?(\d+)$", c.value)
                    if m_:
                        c.value = wb[m_.group(1)]["%s%s" % (m_.group(2), m_.group(3))].value
    if m == "databook_delete_state_sheet":
        del wb["State"]
    elif m == "databook_unit_mismatch_compartment":
        ws = wb["State"]
        r0, c0 = [(c.row, c.column) for row in ws.iter_rows() for c in row if c.value == "Infected"][0]
        ws.cell(r0 + 1, c0 + 2).value = "Fraction"  # a compartment's initial size must be entered as a number
    else:
        ws = wb["Parameters"]
        hdr = [(c.row, c.column) for row in ws.iter_rows() for c in row if c.value == "Recovery rate"]
        r0, c0 = hdr[0]
        if m == "databook_delete_table":
            for rr in range(r0, r0 + 3):
                for cc in range(1, ws.max_column + 1):
                    ws.cell(rr, cc).value = None
        elif m == "databook_unit_mismatch":
            ws.cell(r0 + 1, c0 + 2).value = "Number (per year)"
        elif m == "databook_unit_timescale_mismatch":
            ws.cell(r0 + 1, c0 + 2).value = "Rate (per day)"  # the right kind of unit with another timescale than the framework's (per year)
        elif m == "databook_blank_required_values":
            for rr in (r0 + 1, r0 + 2):
                for cc in range(c0 + 4, ws.max_column + 1):
                    ws.cell(rr, cc).value = None
        elif m == "databook_unknown_population":
            ws.cell(r0 + 1, c0).value = "Nobody"
        elif m in ("databook_missing_population_row", "databook_legacy_missing_population_row"):
            for cc in range(1, ws.max_column + 1):  # the table lists adults only: the row for children is gone
                ws.cell(r0 + 2, cc).value = None
            if m == "databook_legacy_missing_population_row":  # older databooks have no population type column
                pd_ = wb["Population Definitions"]
                for rr in range(2, pd_.max_row + 1):  # (the column is there but left blank, as in most library databooks)
                    pd_.cell(rr, 3).value = None
    out = io.BytesIO()
    wb.save(out)
    out.seek(0)
    return sc.Spreadsheet(out)


def base_progset(at, Fw, D):
    """The valid program book of MCValidate.tla's base file: two programs, two effect rows, one explicit interaction outcome."""
    import sciris as sc
    from atomica.programs import Covout
    from atomica.utils import TimeSeries

    pg = at.ProgramSet.new(tvec=np.array([2000.0, 2001.0]), progs=sc.odict([("P1", "Prog one"), ("P2", "Prog two")]), framework=Fw, data=D)
    for n, comp, spend in (("P1", "inf", 100.0), ("P2", "sus", 50.0)):
        pr = pg.programs[n]
        pr.target_pops = ["adults", "kids"]
        pr.target_comps = [comp]
        pr.spend_data = TimeSeries([2000.0], [spend], units="$/year")
        pr.unit_cost = TimeSeries([2000.0], [2.0], units="$/person/year")
    pg.covouts[("rec", "adults")] = Covout("rec", "adults", {"P1": 0.9, "P2": 0.7}, baseline=0.5, imp_interaction="P1+P2=0.95")
    pg.covouts[("mort", "kids")] = Covout("mort", "kids", {"P2": 0.01}, baseline=0.02)
    return pg


def mutate_progbook(pg, m):
    """Returns the program book of pg as a spreadsheet with defect m (cell-level edits with openpyxl)."""
    import openpyxl
    import re as _re
    import sciris as sc

    wb = openpyxl.load_workbook(io.BytesIO(pg.to_spreadsheet().blob), data_only=False)
    for ws_ in wb.worksheets:  # openpyxl keeps no cached formula results: replace references by their values
        for row in ws_.iter_rows():
            for c in row:
                if isinstance(c.value, str) and c.value.startswith("='"):
                    m_ = _re.match(r"='([^']+)'!\$?([A-Z]+)\$?(\d+)$", c.value)
                    if m_:
                        c.value = wb[m_.group(1)]["%s%s" % (m_.group(2), m_.group(3))].value
    T, Sp, E = wb["Program targeting"], wb["Spending data"], wb["Program effects"]
    find = lambda ws, v: [(c.row, c.column) for row in ws.iter_rows() for c in row if c.value == v]
    if m in ("progbook_none",):
        pass
    elif m == "progbook_lowercase_flags":
        for row in T.iter_rows(min_row=3):
            for c in row:
                if c.value in ("Y", "N"):
                    c.value = c.value.lower()
    elif m == "progbook_zero_outcome":
        r, c = find(E, "Death rate")[0]
        E.cell(r + 2, c + 7).value = 0  # P2's outcome on the death rate of children: exactly zero
    elif m == "progbook_unknown_population":
        r, c = find(T, "Children")[0]
        T.cell(r, c).value = "Nobody"
    elif m == "progbook_unknown_compartment":
        r, c = find(T, "Infected")[0]
        T.cell(r, c).value = "Ghosts"
    elif m == "progbook_duplicate_program":
        r, c = find(T, "P2")[0]
        T.cell(r, c).value = "P1"
    elif m == "progbook_duplicate_program_everywhere":
        for ws in (T, Sp, E):
            for (r, c) in find(ws, "P2"):
                ws.cell(r, c).value = "P1"
    elif m == "progbook_duplicate_program_consistent":  # the same abbreviation twice on every sheet and nothing else wrong (no interaction names the lost program)
        for ws in (T, Sp, E):
            for (r, c) in find(ws, "P2"):
                ws.cell(r, c).value = "P1"
        r, c = find(E, "P1+P2=0.95")[0]
        E.cell(r, c).value = None
    elif m == "progbook_reserved_program_name":
        for ws in (T, Sp, E):
            for (r, c) in find(ws, "P2"):
                ws.cell(r, c).value = "all"
    elif m == "progbook_untargetable_parameter":
        r, c = find(E, "Death rate")[0]
        E.cell(r, c).value = "Duration of immunity"
    elif m == "progbook_unknown_parameter":
        r, c = find(E, "Death rate")[0]
        E.cell(r, c).value = "No such parameter"
    elif m == "progbook_unknown_effect_population":
        r, c = find(E, "Death rate")[0]
        E.cell(r + 2, c).value = "Nobody"
    elif m == "progbook_unknown_program_in_effects":
        r, c = find(E, "Death rate")[0]
        E.cell(r, c + 7).value = "P9"
    elif m == "progbook_interaction_unknown_program":
        r, c = find(E, "P1+P2=0.95")[0]
        E.cell(r, c).value = "P1+P9=0.95"
    elif m == "progbook_interaction_program_without_outcome":
        r, c = find(E, "Death rate")[0]
        E.cell(r + 2, c + 3).value = "P1+P2=0.005"  # P1 has no outcome in that row
    elif m == "progbook_no_target_compartment":
        r, c = find(T, "P1")[0]
        for cc in range(6, T.max_column + 1):
            T.cell(r, cc).value = "N"
    elif m == "progbook_no_target_population":
        r, c = find(T, "P1")[0]
        for cc in (3, 4):
            T.cell(r, cc).value = "N"
    elif m in ("progbook_missing_unit_cost", "progbook_missing_spending"):
        r, c = find(Sp, "P1")[0]
        rr = r + (2 if m.endswith("unit_cost") else 1)
        for cc in range(5, Sp.max_column + 1):
            if Sp.cell(rr, cc).value != "OR":
                Sp.cell(rr, cc).value = None
    elif m == "progbook_outcome_without_baseline":
        r, c = find(E, "Recovery rate")[0]
        E.cell(r + 1, c + 1).value = None
    elif m == "progbook_bad_coverage_interaction":
        r, c = find(E, "Recovery rate")[0]
        E.cell(r + 1, c + 2).value = "Sometimes"
    elif m == "progbook_mixed_currencies":
        r, c = find(Sp, "P2")[0]
        Sp.cell(r + 1, c + 2).value = "EUR/year"
        Sp.cell(r + 2, c + 2).value = "EUR/person/year"
    elif m == "progbook_delete_effects_sheet":
        del wb["Program effects"]
    elif m == "progbook_delete_spending_sheet":
        del wb["Spending data"]
    else:
        raise ValueError(m)
    out = io.BytesIO()
    wb.save(out)
    out.seek(0)
    return sc.Spreadsheet(out)


# ------------------------------------------------------------------------------------------------ library files as bases
_LISTED = {"max", "min", "exp", "floor", "sqrt", "ln", "cos", "sin", "sdiv"}


def _lower(x):
    return x.strip().lower() if isinstance(x, str) else x


def read_sheets(path):
    """{sheet name: rows} of an xlsx file (values only)."""
    import openpyxl

    wb = openpyxl.load_workbook(path, data_only=True)
    S = {}
    for ws in wb.worksheets:
        rows = [[c.value for c in row] for row in ws.iter_rows()]
        while rows and all(v is None for v in rows[-1]):
            rows.pop()
        S[ws.title] = rows
    return S


def skey(S, name):
    for k in S:
        if k.strip().lower() == name.lower():
            return k
    raise KeyError(name)


def hcol(rows, header):
    for j, v in enumerate(rows[0]):
        if _lower(v) == header.lower():
            return j
    raise KeyError(header)


def fn_tokens(fn):
    """(dependencies, called functions) of a parameter function string, by tokenising (the harness's own reading, not the library's parser)."""
    import re

    deps, calls = set(), set()
    for m_ in re.finditer(r"[A-Za-z_][A-Za-z0-9_]*(?::[A-Za-z0-9_]*)*|:[A-Za-z_][A-Za-z0-9_]*", fn):
        tok = m_.group(0)
        rest = fn[m_.end():].lstrip()
        if rest.startswith("(") and ":" not in tok:
            calls.add(tok)
        else:
            for part in tok.split(":"):
                if part and part != "flow":
                    deps.add(part)
    return deps, calls


def lib_base(at, name):
    """(abstract TLA+ record text, concrete sheets, anchors) of a library framework, or None if it uses features outside the abstraction."""
    import atomica

    path = "%s/%s_framework.xlsx" % (atomica.LIBRARY_PATH, name)
    F = at.ProjectFramework(path)
    S = read_sheets(path)
    q = lambda x: '"%s"' % x
    st = lambda xs: "{%s}" % ", ".join(sorted(xs))
    kinds = {}
    for c in F.comps.index:
        r = F.comps.loc[c]
        kinds[c] = "source" if r["is source"] == "y" else "sink" if r["is sink"] == "y" else "junction" if r["is junction"] == "y" else "normal"
    pars = []
    fpars = []
    for pn in F.pars.index:
        fn = F.pars.at[pn, "function"]
        fmt = F.pars.at[pn, "format"]
        deps, calls = (fn_tokens(fn) if isinstance(fn, str) else (set(), set()))
        if calls - _LISTED:
            return None  # population aggregations etc.: outside this abstraction
        if isinstance(fn, str):
            fpars.append(pn)
        pars.append('Par(%s, %s, %s, %s)' % (q(pn), q(fmt.strip().lower() if isinstance(fmt, str) else ""), st(q(d) for d in deps), st(q(c) for c in calls)))
    trans = sorted({(a, b, pn) for pn, pairs in F.transitions.items() for (a, b) in pairs})
    characs = []
    expand = {}

    def comps_of(n):
        if n in kinds:
            return {n}
        if n not in expand:
            expand[n] = set().union(*[comps_of(x.strip()) for x in str(F.characs.at[n, "components"]).split(",")])
        return expand[n]

    for ch in F.characs.index:
        parts = [x.strip() for x in str(F.characs.at[ch, "components"]).split(",")]
        den = F.characs.at[ch, "denominator"]
        characs.append('[name |-> %s, parts |-> %s, denom |-> %s]' % (q(ch), st(q(x) for x in parts), q(den) if isinstance(den, str) else '""'))
    casc = []
    if len(F.cascades):
        df = list(F.cascades.values())[0]
        for cell in df.iloc[:, 1]:
            casc.append(st(q(c) for c in sorted(set().union(*[comps_of(x.strip()) for x in str(cell).split(",")]))))
    normal = [c for c, k in kinds.items() if k == "normal"]
    pairs = {(a, b) for (a, b, _) in trans}
    free = [(a, b) for a in normal for b in normal if a != b and (a, b) not in pairs and F.comps.at[a, "population type"] == F.comps.at[b, "population type"]]
    tpars = [pn for (a, b, pn) in trans if kinds[a] == "normal" and pn not in fpars]
    if not free or not tpars or not fpars:
        return None
    anch = dict(tpar=tpars[0], c1=free[0][0], c2=free[0][1], fpar=fpars[0], p2=[p_ for p_ in F.pars.index if p_ not in (tpars[0], fpars[0])][0])
    sheets = {k.strip().lower() for k in S}
    cols = set()
    for sh, col_ in (("compartments", "code name"), ("compartments", "display name"), ("parameters", "code name"), ("parameters", "display name"), ("parameters", "format")):
        try:
            hcol(S[skey(S, sh)], col_)
            cols.add("%s.%s" % (sh, col_))
        except KeyError:
            pass
    inter = list(F.interactions.index) if hasattr(F, "interactions") and F.interactions is not None else []
    P = at.demo(name, do_run=False)
    rec = ('[id |-> %s,\n comps |-> %s,\n pars |-> %s,\n trans |-> %s,\n characs |-> %s,\n cascade |-> <<%s>>,\n sheets |-> %s, columns |-> %s, dupcodes |-> 0, dupdisplay |-> 0, datadefects |-> {},\n'
           ' datapops |-> %s, targetable |-> {}, extranames |-> %s,\n anch |-> [tpar |-> %s, c1 |-> %s, c2 |-> %s, fpar |-> %s, p2 |-> %s],\n'
           ' pb |-> [progs |-> {}, dupprogs |-> 0, tpops |-> {}, tcomps |-> {}, epars |-> {}, epops |-> {}, eprogs |-> {}, iprogs |-> {}, untargeted |-> {}, defects |-> {}]]') % (
        q("lib_" + name), st('C(%s, %s)' % (q(c), q(k)) for c, k in kinds.items()), st(pars), st('<<%s, %s, %s>>' % (q(a), q(b), q(pn)) for a, b, pn in trans), st(characs), ", ".join(casc),
        st(q(x) for x in sheets), st(q(x) for x in cols), st(q(x) for x in P.data.pops.keys()), st(q(x) for x in inter), q(anch["tpar"]), q(anch["c1"]), q(anch["c2"]), q(anch["fpar"]), q(anch["p2"]))
    return rec, S, anch


def mutate_generic(S, m, anch):
    """Apply generic mutation m (phrased over the anchors) to concrete sheets {name: rows}."""
    S = copy.deepcopy(S)
    if m == "g_none":
        return S
    if m == "g_delete_parameters_sheet":
        del S[skey(S, "parameters")]
        return S
    P = S[skey(S, "parameters")]
    code, disp, fnc = hcol(P, "code name"), hcol(P, "display name"), hcol(P, "function")
    prow = lambda n: [r for r in P[1:] if r and r[code] == n][0]

    def newpar(c, d, fn=None):
        r = [None] * len(P[0])
        r[code], r[disp], r[fnc] = c, d, fn
        try:
            r[hcol(P, "targetable")] = "n"
        except KeyError:
            pass
        P.append(r)

    if m in ("g_undefined_parameter_in_transition", "g_undefined_compartment_in_transition"):
        T = S[skey(S, "transitions")]
        ri = [i for i, r in enumerate(T) if r and r[0] == anch["c1"]][0]
        hi = max(i for i in range(ri) if T[i] and anch["c1"] in T[i][1:])  # header row of the matrix that contains c1
        if m == "g_undefined_parameter_in_transition":
            T[ri][T[hi].index(anch["c2"], 1)] = "noparam"
        else:
            width = max(len(r) for r in T)
            for r in T:
                r.extend([None] * (width + 1 - len(r)))
            T[hi][width] = "nowhere"
            T[ri][width] = anch["tpar"]
    elif m == "g_duplicate_code_name":
        newpar(anch["c1"], "Duplicate of a compartment name")
    elif m == "g_duplicate_display_name":
        prow(anch["p2"])[disp] = prow(anch["tpar"])[disp]
    elif m == "g_reserved_name":
        newpar("t", "Time parameter")
    elif m == "g_self_reference":
        prow(anch["fpar"])[fnc] = "%s + 0*%s" % (prow(anch["fpar"])[fnc], anch["fpar"])
    elif m == "g_unsupported_call":
        prow(anch["fpar"])[fnc] = "foo(%s)" % prow(anch["fpar"])[fnc]
    elif m == "g_undefined_dependency":
        prow(anch["fpar"])[fnc] = "%s + ghost" % prow(anch["fpar"])[fnc]
    elif m == "g_delete_format_column":
        j = hcol(P, "format")
        for r in P:
            if len(r) > j:
                del r[j]
    elif m == "g_add_output_parameter":
        newpar("extra", "Extra output", "max(%s, 1)" % anch["c1"])
    else:
        raise ValueError(m)
    return S


def try_lib_case(at, name, S, anch, m):
    """A library framework with generic mutation m: rejected with the dedicated error, or accepted and runnable with the library databook."""
    import atomica

    try:
        Fw = at.ProjectFramework(write_framework(mutate_generic(S, m, anch)))
    except Exception as ex:
        return ("rejected" if dedicated(ex) else "error"), False, "framework: %s: %s" % (type(ex).__name__, str(ex)[:200])
    try:
        P = at.Project(framework=Fw, databook="%s/%s_databook.xlsx" % (atomica.LIBRARY_PATH, name), do_run=False)
        P.settings.update_time_vector(end=float(P.settings.sim_start) + 3)
        P.run_sim(P.parsets[0], store_results=False)
    except Exception as ex:
        return "accepted", False, "library databook / run: %s: %s" % (type(ex).__name__, str(ex)[:200])
    return "accepted", True, ""


def try_case(at, S0, m):
    """Materialise (base, mutation), feed it to the library; returns (outcome, runnable, detail)."""
    import sciris as sc

    try:
        if m.startswith("g_"):
            Fw = at.ProjectFramework(write_framework(mutate_generic(S0, m, dict(tpar="rec", c1="inf", c2="sus", fpar="foi", p2="mort"))))
        else:
            Fw = at.ProjectFramework(write_framework(mutate_framework(S0, m)))
    except Exception as ex:
        return ("rejected" if dedicated(ex) else "error"), False, "framework: %s: %s" % (type(ex).__name__, str(ex)[:200])
    # every accepted framework can produce a blank databook that reads back, and once filled the model builds and runs
    try:
        D = at.ProjectData.new(Fw, np.arange(2000, 2003), pops=sc.odict([("adults", "Adults"), ("kids", "Children")]), transfers=0)
        D2 = at.ProjectData.from_spreadsheet(D.to_spreadsheet(), Fw)
    except Exception as ex:
        return "accepted", False, "blank databook: %s: %s" % (type(ex).__name__, str(ex)[:200])
    for name, tdve in D2.tdve.items():
        for pop, ts in tdve.ts.items():
            if name == "alive":
                ts.insert(2000.0, 1000.0)
            elif name in ("sus", "inf", "rcv", "rcv2"):
                ts.insert(2000.0, {"sus": 900.0, "inf": 100.0, "rcv": 0.0, "rcv2": 0.0}[name])
            elif not ts.has_data:
                ts.assumption = {"birth": 10.0, "beta": 0.5, "rec": 0.5, "split1": 0.9, "split2": 0.1, "wane": 5.0, "mort": 0.02}.get(name, 1.0)
    if m.startswith("databook_"):
        try:
            ss = mutate_databook(at, Fw, D2, m)
            P = at.Project(framework=Fw, databook=ss, do_run=False)  # reading a databook = ProjectData.from_spreadsheet + validate against the framework
            P.settings.update_time_vector(start=2000, end=2002, dt=0.25)
            P.run_sim(P.parsets[0], store_results=False)
        except Exception as ex:
            return ("rejected" if dedicated(ex) else "error"), False, "databook: %s: %s" % (type(ex).__name__, str(ex)[:200])
        return "accepted", True, ""
    if m.startswith("progbook_"):
        try:
            P = at.Project(framework=Fw, databook=D2.to_spreadsheet(), do_run=False)
            P.settings.update_time_vector(start=2000, end=2003, dt=0.25)
            ss = mutate_progbook(base_progset(at, Fw, P.data), m)
        except Exception as ex:
            raise C.MachineryError("cannot build the base program book: %s: %s" % (type(ex).__name__, ex))
        try:
            pg = P.load_progbook(ss)  # reading a program book = ProgramSet.from_spreadsheet + validate
        except Exception as ex:
            return ("rejected" if dedicated(ex) else "error"), False, "progbook: %s: %s" % (type(ex).__name__, str(ex)[:200])
        try:
            res = P.run_sim(P.parsets[0], pg, at.ProgramInstructions(start_year=2001.0, alloc=pg), store_results=False)
            frac = res.get_coverage("fraction")
            if not all(np.all(np.isfinite(v)) for v in frac.values()):
                return "accepted", False, "run with programs: non-finite coverage"
        except Exception as ex:
            return "accepted", False, "run with programs: %s: %s" % (type(ex).__name__, str(ex)[:200])
        return "accepted", True, ""
    try:
        P = at.Project(framework=Fw, databook=D2.to_spreadsheet(), do_run=False)
        P.settings.update_time_vector(start=2000, end=2002, dt=0.25)
        res = P.run_sim(P.parsets[0], store_results=False)
        if res.check_for_nans(verbose=False) if hasattr(res, "check_for_nans") else False:
            return "accepted", False, "run produced NaNs"
    except Exception as ex:
        return "accepted", False, "filled databook / run: %s: %s" % (type(ex).__name__, str(ex)[:200])
    return "accepted", True, ""


def run(prop, tier):
    t0 = time.time()
    at = C.quiet_atomica()
    V = C.Verdict(prop)
    cfg = open(C.SPEC + "/Validate.cfg").read()
    # library frameworks as further bases: their abstract record is derived from the file, TLC checks that it satisfies the rules (BaseValid)
    libs = {}
    mc = open(C.SPEC + "/MCValidate.tla").read()
    defs = ""
    for name in (["tb_simple", "hiv", "sir"] if tier != "thorough" else ["tb_simple", "udt", "usdt", "hiv", "hypertension", "diabetes", "cervicalcancer", "sir"]):
        try:
            lb = lib_base(at, name)
        except Exception as ex:
            V.note_drift("library framework %s could not be abstracted: %s: %s" % (name, type(ex).__name__, str(ex)[:100]))
            continue
        if lb is None:
            continue
        libs["lib_" + name] = (name, lb[1], lb[2])
        defs += "L_%s == %s\n" % (name, lb[0])
    if libs:
        mc = mc.replace("MCBases == <<B1, B2>>", defs + "MCBases == <<B1, B2, %s>>" % ", ".join("L_%s" % n for n, _, _ in libs.values()))
    r, pairs = C.enumerate_cases(["Validate", "MCValidate"], "MCValidate", cfg, timeout=600, generated={"MCValidate.tla": mc})
    cov = dict(states=r.distinct, transitions=r.generated, traces_validated_against_impl=0, samples=[], exhaustive=True, pairs=len(pairs))
    S0 = base_sheets()
    records, index = [], {}
    cov["library_bases"] = sorted(libs)
    featcases = [p for p in pairs if p["mutation"] in ("databook_interaction_missing_values", "databook_timed_parameter_varies")]
    pairs = [p for p in pairs if p not in featcases]
    for rid, p in enumerate(pairs):
        if p["base"] in libs:
            outcome, runnable, detail = try_lib_case(at, libs[p["base"]][0], libs[p["base"]][1], libs[p["base"]][2], p["mutation"])
        else:
            outcome, runnable, detail = try_case(at, S0, p["mutation"])
        records.append(dict(id=rid, verdict=p["verdict"], outcome=outcome, runnable=bool(runnable)))
        index[rid] = dict(base=p["base"], mutation=p["mutation"], verdict=p["verdict"], outcome=outcome, runnable=runnable, detail=detail)
    # every accepted framework can produce a blank databook that reads back: library frameworks (several population types, interactions
    # between types, transfers) with unequal numbers of populations per type
    import atomica
    import sciris as sc

    rid = len(records)
    for name in (["combined", "tb_simple", "sir", "hiv"] + (["tb", "malaria", "diabetes", "udt", "usdt"] if tier == "thorough" else [])):
        try:
            Fw = at.ProjectFramework("%s/%s_framework.xlsx" % (atomica.LIBRARY_PATH, name))
        except Exception as ex:
            V.note_drift("library framework %s did not load: %s" % (name, str(ex)[:100]))
            continue
        types = list(Fw.pop_types.keys())
        pops = sc.odict()
        for k, tp in enumerate(types):
            for j in range([3, 1, 2][k % 3]):
                pops["%s%d" % (tp[:3], j)] = {"label": "Pop %s %d" % (tp, j), "type": tp}
        try:
            D = at.ProjectData.new(Fw, np.arange(2000, 2003), pops=pops, transfers=sc.odict([("mv", {"label": "Move", "type": types[0]})]) if len(types) else 0)
            at.ProjectData.from_spreadsheet(D.to_spreadsheet(), Fw)
            outcome, runnable, detail = "accepted", True, ""
        except Exception as ex:
            outcome, runnable, detail = "accepted", False, "blank databook: %s: %s" % (type(ex).__name__, str(ex)[:200])
        records.append(dict(id=rid, verdict="accept", outcome=outcome, runnable=bool(runnable)))
        index[rid] = dict(base="lib_" + name, mutation="blank_databook_reads_back", verdict="accept", outcome=outcome, runnable=runnable, detail=detail)
        rid += 1
    # databook defects that need structure the generated base lacks (rule DataComplete: the databook holds every required value in the
    # required form): an interaction whose values are missing (library combined), a timed duration that varies over time (sir_vaccine)
    for fc in featcases:
        name, mut = fc["base"][4:], fc["mutation"]
        try:
            Fw = at.ProjectFramework("%s/%s_framework.xlsx" % (atomica.LIBRARY_PATH, name))
            D = at.ProjectData.from_spreadsheet("%s/%s_databook.xlsx" % (atomica.LIBRARY_PATH, name), Fw)
            if mut == "databook_interaction_missing_values":
                ts = list(D.interpops[0].ts.values())[0]
                ts.t, ts.vals, ts.assumption = [], [], None
            else:
                tp = [p_ for p_ in Fw.pars.index if Fw.pars.at[p_, "timed"] == "y"][0]
                D.tdve[tp].tvec = np.array(D.tvec, dtype=float)
                ts = list(D.tdve[tp].ts.values())[0]
                v0 = float(ts.assumption if ts.assumption is not None else ts.vals[0])
                ts.assumption = None
                ts.t, ts.vals = [float(D.tvec[0]), float(D.tvec[-1])], [v0, v0 * 2]
            ss = D.to_spreadsheet()
        except Exception as ex:
            V.note_drift("library databook %s could not be prepared for %s: %s" % (name, mut, str(ex)[:120]))
            continue
        try:
            P_ = at.Project(framework=Fw, databook=ss, do_run=False)
            P_.run_sim(P_.parsets[0], store_results=False)
            outcome, runnable, detail = "accepted", True, ""
        except Exception as ex:
            outcome, runnable, detail = ("rejected" if dedicated(ex) else "error"), False, "databook: %s: %s" % (type(ex).__name__, str(ex)[:200])
        records.append(dict(id=rid, verdict=fc["verdict"], outcome=outcome, runnable=bool(runnable)))
        index[rid] = dict(base="lib_" + name, mutation=mut, verdict=fc["verdict"], outcome=outcome, runnable=runnable, detail=detail)
        rid += 1
    # valid library files must be accepted and runnable too (environment permitting)
    bad, states = C.validate_batch(["ValidateTrace"], "ValidateTrace", records, chunks=1)
    cov["states"] += states
    cov["transitions"] += states
    cov["traces_validated_against_impl"] = len(records)
    cov["outcomes"] = {("" if v["base"] == "sirj" else v["base"] + ":") + v["mutation"]: "%s%s" % (v["outcome"], "" if v["outcome"] != "accepted" else (" runnable" if v["runnable"] else " NOT runnable")) for v in index.values()}
    for rid_, clause in bad:
        d = index[rid_]
        V.violation("C18 %s %smutation=%s %s" % (clause, "" if d["base"] == "sirj" else d["base"] + " ", d["mutation"], d["detail"].split(":")[1].strip() if d["detail"] and clause == "InternalError" else ""), dict(clause=clause, **d))
    cov["samples"] = [index[0], index[len(index) - 1]]
    return V, cov, time.time() - t0
