"""Run Ensemble.run_sims serially and in parallel in a fresh process and print the digests of the samples as JSON."""
import hashlib
import json
import sys

import numpy as np


def main():
    from harness import common as C
    from harness import digest as DG
    from harness import props_c17 as P17
    from harness import ens_map

    n = int(sys.argv[1])
    at = C.quiet_atomica()
    P, ps, _ = P17.uncertain_project(at)
    ens_map.COMPS[:] = list(P.framework.comps.index)
    out = []
    for par in (True, False):
        ens = at.Ensemble(ens_map.mapping)
        np.random.seed(99)
        before = DG.dig(ps)
        ens.run_sims(P, n_samples=n, parset=ps, parallel=par)
        out.append(dict(parallel=par, before=before, after=DG.dig(ps),
                        digests=[hashlib.sha256(b"".join(np.ascontiguousarray(x.vals).tobytes() for x in smp.series)).hexdigest()[:16] for smp in ens.samples]))
    print("ENSEMBLE " + json.dumps(out))


if __name__ == "__main__":
    main()
