"""C20: reported aggregates depend only on what was asked for and add up (spec/Aggregate.tla)."""
import os
import time

import numpy as np

from . import common as C
from . import digest as DG
from . import fix as FX

MODELS = {
    "hiv": dict(plain_n=["undx", "all_tx"], plain_f=["diag", "loss"], flow="diag:flow", agg_n=["undx", "dx"], agg_f=["diag", "loss"], formula="undx+dx", pops=["females", "males"]),
    "hypertension": dict(plain_n=["undx", "all_tx"], plain_f=["diag", "loss"], flow="diag:flow", agg_n=["undx", "scr"], agg_f=["diag", "loss"], formula="undx+dx", pops=["m_rural", "f_rural", "m_urban"]),
}


def tla_items(m):
    q = lambda xs: "<<%s>>" % ",".join('"%s"' % x for x in xs)
    outs = []
    for n in m["plain_n"]:
        outs.append('[name |-> "%s", kind |-> "plain", labels |-> %s, units |-> "number"]' % (n, q([n])))
    for n in m["plain_f"]:
        outs.append('[name |-> "%s", kind |-> "plain", labels |-> %s, units |-> "fraction"]' % (n, q([n])))
    outs.append('[name |-> "%s", kind |-> "plain", labels |-> %s, units |-> "number"]' % (m["flow"], q([m["flow"]])))
    outs.append('[name |-> "aggn", kind |-> "agg", labels |-> %s, units |-> "number"]' % q(m["agg_n"]))
    outs.append('[name |-> "aggf", kind |-> "agg", labels |-> %s, units |-> "fraction"]' % q(m["agg_f"]))
    outs.append('[name |-> "form", kind |-> "formula", labels |-> %s, units |-> "number"]' % q([m["formula"]]))
    pops = ['[name |-> "%s", kind |-> "plain", labels |-> %s]' % (p, q([p])) for p in m["pops"][:2]]
    pops.append('[name |-> "T", kind |-> "agg", labels |-> %s]' % q(m["pops"]))
    if len(m["pops"]) >= 3:  # an aggregation over a proper subset of the populations, requested next to a population outside it
        pops.append('[name |-> "S", kind |-> "agg", labels |-> %s]' % q(m["pops"][:2]))
        pops.append('[name |-> "%s", kind |-> "plain", labels |-> %s]' % (m["pops"][2], q([m["pops"][2]])))
    return "{%s}" % ",".join(outs), "{%s}" % ",".join(pops)


def out_spec(m, name):
    if name == "aggn":
        return {"aggn": list(m["agg_n"])}
    if name == "aggf":
        return {"aggf": list(m["agg_f"])}
    if name == "form":
        return {"form": m["formula"]}
    return name


def pop_spec(m, name):
    return {"T": list(m["pops"])} if name == "T" else {"S": list(m["pops"][:2])} if name == "S" else name


def opt(x):
    return None if x == "none" else x


def run(prop, tier):
    t0 = time.time()
    at = C.quiet_atomica()
    V = C.Verdict(prop)
    thorough = tier == "thorough"
    rng = np.random.default_rng(C.seed())
    cov = dict(states=0, transitions=0, traces_validated_against_impl=0, samples=[], exhaustive=True, requests=0)
    records, index = [], {}
    rid = 0
    for mname in ["hiv", "hypertension"]:
        m = MODELS[mname]
        P = at.demo(mname, do_run=False)
        P.framework.pars.at[m["plain_f"][1], "timescale"] = 1.0 / 12  # one quantity on a monthly timescale (none of the library frameworks has one)
        res = P.run_sim(P.parsets[0], P.progsets[0], at.ProgramInstructions(start_year=float(P.settings.sim_start + 2), alloc=P.progsets[0]), store_results=False)
        res.name = "r"
        outs, pops = tla_items(m)
        mc = "---- MODULE MCAggregate ----\nEXTENDS Aggregate\nMCOut == %s\nMCPop == %s\nMCOpt == {<<\"none\",\"none\">>, <<\"sum\",\"none\">>, <<\"none\",\"average\">>, <<\"weighted\",\"weighted\">>, <<\"average\",\"sum\">>}\n====\n" % (outs, pops)
        cfg = "SPECIFICATION Spec\nCONSTANTS\n OutItems <- MCOut\n PopItems <- MCPop\n Options <- MCOpt\n MaxOut = %d\n MaxPop = 2\nINVARIANT ItemLocal\nCHECK_DEADLOCK FALSE\n" % (3 if thorough else 2)
        r, reqs = C.enumerate_cases(["Aggregate"], "MCAggregate", cfg, timeout=1800, generated={"MCAggregate.tla": mc})
        cov["states"] += r.distinct
        cov["transitions"] += r.generated
        nmax = 900 if mname == "hiv" else 400
        if not thorough and len(reqs) > nmax:
            reqs = [reqs[i] for i in rng.permutation(len(reqs))[:nmax]]
        cov["requests"] += len(reqs)
        before = DG.result_digest(res)
        tix = [0, len(res.model.t) // 2, len(res.model.t) - 2]
        ref = {}

        def reference(o, p, om, pm):
            key = (o, p, om, pm)
            if key not in ref:
                d = at.PlotData(res, outputs=[out_spec(m, o)], pops=[pop_spec(m, p)], output_aggregation=None if om == "n/a" else om, pop_aggregation=None if pm == "n/a" else pm)
                ref[key] = np.array(d.series[0].vals, dtype=float)
            return ref[key]

        def base(label, pop):
            d = at.PlotData(res, outputs=[label], pops=[pop])
            return np.array(d.series[0].vals, dtype=float)

        for rq in reqs:
            try:
                d = at.PlotData(res, outputs=[out_spec(m, o) for o in rq["outputs"]], pops=[pop_spec(m, p) for p in rq["pops"]], output_aggregation=opt(rq["opt"][0]), pop_aggregation=opt(rq["opt"][1]))
            except Exception as ex:
                V.violation("C20 PlotData raised %s" % type(ex).__name__, dict(model=mname, request=rq, error=str(ex)[:300]))
                continue
            got = {(s.pop, s.output): np.array(s.vals, dtype=float) for s in d.series}
            for s in rq["series"]:
                v = got.get((s["pop"], s["output"]))
                if v is None:
                    V.violation("C20 series missing", dict(model=mname, request=rq, series=s))
                    continue
                r_ = reference(s["output"], s["pop"], s["omethod"], s["pmethod"])
                ok = np.isfinite(v) & np.isfinite(r_)
                if not np.array_equal(np.isfinite(v), np.isfinite(r_)):
                    V.violation("C20 NaN pattern depends on the rest of the request", dict(model=mname, request=rq, series=s))
                    continue
                tix_ok = [t_ for t_ in tix if ok[t_]]  # (sampled time indices at which the series is defined)
                records.append(dict(id=rid, kind="same", a=FX.fixseq(v[tix_ok]), b=FX.fixseq(r_[tix_ok])))
                index[rid] = dict(model=mname, request={k: rq[k] for k in ("outputs", "pops", "opt")}, series=s, got=[float(x) for x in v[tix]], alone=[float(x) for x in r_[tix]])
                rid += 1
        # a formula output that is *named* like a model quantity, requested next to an aggregation that uses that quantity: the aggregation is still
        # the aggregation of the model quantities
        p0_ = m["pops"][0]
        alone_ = np.array(at.PlotData(res, outputs=[{"aggn": list(m["agg_n"])}], pops=[p0_]).series[0].vals, dtype=float)
        for first in (True, False):
            items_ = [{m["agg_n"][0]: m["formula"]}, {"aggn": list(m["agg_n"])}]
            try:
                d_ = at.PlotData(res, outputs=items_ if first else items_[::-1], pops=[p0_])
                v_ = np.array([s_ for s_ in d_.series if s_.output == "aggn"][0].vals, dtype=float)
                okk = [t_ for t_ in tix if np.isfinite(v_[t_]) and np.isfinite(alone_[t_])]
                records.append(dict(id=rid, kind="same", a=FX.fixseq(v_[okk]), b=FX.fixseq(alone_[okk])))
                index[rid] = dict(model=mname, request=dict(outputs=["formula named %s" % m["agg_n"][0], "aggn"] if first else ["aggn", "formula named %s" % m["agg_n"][0]], pops=[p0_], opt=["none", "none"]),
                                  series=dict(pop=p0_, output="aggn", omethod="n/a", pmethod="n/a"), got=[float(x) for x in v_[tix]], alone=[float(x) for x in alone_[tix]])
                rid += 1
            except Exception as ex:
                V.violation("C20 PlotData raised %s" % type(ex).__name__, dict(model=mname, request="formula named like a model quantity", error=str(ex)[:300]))
        # arithmetic of the references against their parts (one record per time index)
        for (o, p, om, pm), v in list(ref.items()):
            pl = m["pops"] if p == "T" else m["pops"][:2] if p == "S" else [p]
            labels = m["agg_n"] if o == "aggn" else m["agg_f"] if o == "aggf" else None
            if p in ("T", "S"):
                # population level: parts = the same output item in each population (with the same output method)
                parts = [reference(o, q, om, "n/a") for q in pl]
                w = [np.array(res.model.get_pop(q).popsize(), dtype=float) for q in pl]
                for ti in tix:
                    pv = [float(x[ti]) for x in parts]
                    if not (np.all(np.isfinite(pv)) and np.isfinite(v[ti])):
                        continue
                    records.append(dict(id=rid, kind="arith", method=pm, obs=FX.fix(v[ti]), parts=FX.fixseq(pv), weights=FX.fixseq([float(x[ti]) for x in w])))
                    index[rid] = dict(model=mname, level="populations", item=[o, p], method=pm, obs=float(v[ti]), parts=pv, ti=ti)
                    rid += 1
            elif labels:
                parts = [base(l, p) for l in labels]
                pop = res.model.get_pop(p)
                w = []
                for l in labels:
                    var = pop.get_variable(l)[0]
                    if getattr(var, "links", None):
                        cs = np.zeros(len(res.model.t))
                        for link in var.links:
                            cs = cs + np.array(link.source.vals, dtype=float)
                        w.append(cs)
                    else:
                        w.append(np.array(var.vals, dtype=float))
                for ti in tix:
                    pv = [float(x[ti]) for x in parts]
                    if not (np.all(np.isfinite(pv)) and np.isfinite(v[ti])):
                        continue
                    records.append(dict(id=rid, kind="arith", method=om, obs=FX.fix(v[ti]), parts=FX.fixseq(pv), weights=FX.fixseq([float(x[ti]) for x in w])))
                    index[rid] = dict(model=mname, level="outputs", item=[o, p], method=om, obs=float(v[ti]), parts=pv, ti=ti)
                    rid += 1
        # time aggregation onto bins: a series aggregated alone equals the same series aggregated together with others, in any order
        tb = [float(res.model.t[0]), float(res.model.t[len(res.model.t) // 2]), float(res.model.t[-1])]
        names = m["plain_n"] + m["plain_f"] + [m["flow"]]
        for ta in (None, "integrate", "average"):
            alone = {}
            for n in names:
                d = at.PlotData(res, outputs=[n], pops=[m["pops"][0]], t_bins=tb, time_aggregation=ta)
                alone[n] = np.array(d.series[0].vals, dtype=float)
            import itertools

            allperms = list(itertools.permutations(names))
            for perm in ([allperms[i] for i in (range(len(allperms)) if thorough else rng.permutation(len(allperms))[:24])]):
                d = at.PlotData(res, outputs=list(perm), pops=[m["pops"][0]], t_bins=tb, time_aggregation=ta)
                for s in d.series:
                    records.append(dict(id=rid, kind="same", a=FX.fixseq(np.array(s.vals, dtype=float)), b=FX.fixseq(alone[s.output])))
                    index[rid] = dict(model=mname, request=dict(outputs=list(perm), t_bins=tb, time_aggregation=ta), series=s.output, got=[float(x) for x in s.vals], alone=[float(x) for x in alone[s.output]])
                    rid += 1
            # integrating over the whole span equals the sum of the bins
            if ta == "integrate":
                for n in m["plain_n"]:
                    d = at.PlotData(res, outputs=[n], pops=[m["pops"][0]], t_bins=[tb[0], tb[-1]], time_aggregation=ta)
                    records.append(dict(id=rid, kind="arith", method="sum", obs=FX.fix(float(d.series[0].vals[0])), parts=FX.fixseq(alone[n]), weights=[]))
                    index[rid] = dict(model=mname, level="time bins", item=n, obs=float(d.series[0].vals[0]), parts=[float(x) for x in alone[n]])
                    rid += 1
        # cascades: stage values never increase along a valid cascade; data cascade = sum of databook entries; plotting / exporting leaves the result unchanged
        from atomica.cascade import get_cascade_vals, get_cascade_data

        import sciris as sc

        casc_mod = __import__("atomica.cascade", fromlist=["sanitize_cascade"])
        # ad hoc cascades: stages listed as several constituents, a later stage re-using constituents of an earlier one (in both orders)
        withdata = [n for n in list(P.framework.comps.index) + list(P.framework.characs.index)
                    if P.data.get_ts(n, m["pops"][0]) is not None and P.data.get_ts(n, m["pops"][0]).has_time_data]
        adhoc = []
        for x in withdata[:4]:
            for y in withdata[:4]:
                if x != y:
                    adhoc.append(sc.odict([("S1", [x, y]), ("S2", [x])]))
                    adhoc.append(sc.odict([("S1", [x, y]), ("S2", [y])]))
        # three stages: properly nested ones, and ones whose third stage lies inside the first but not inside the second (must be refused -
        # if they are accepted their values are judged like any other cascade's: never increasing)
        wcomps = [n for n in P.framework.comps.index if P.framework.comps.at[n, "is source"] != "y" and P.framework.comps.at[n, "is sink"] != "y" and P.framework.comps.at[n, "is junction"] != "y"
                  and (("population type" not in P.framework.comps.columns) or P.framework.comps.at[n, "population type"] == P.framework.comps.at[P.framework.comps.index[0], "population type"])][:3]
        valid3 = []
        if len(wcomps) == 3:
            x, y, z = wcomps
            for cd_ in (sc.odict([("S1", [x, y, z]), ("S2", [x, y]), ("S3", [x])]), sc.odict([("S1", [x, y, z]), ("S2", [x]), ("S3", [y])]), sc.odict([("S1", [x, y, z]), ("S2", [y]), ("S3", [x])]),
                        sc.odict([("S1", [x, y, z]), ("S2", [z]), ("S3", [x, y])])):
                try:
                    casc_mod.sanitize_cascade(P.framework, cd_)
                    valid3.append(cd_)
                except Exception:
                    pass
            for cd_ in valid3:
                vals, t = get_cascade_vals(res, cd_, pops="all")
                stages = list(vals.keys())
                for ti in range(0, len(t), max(1, len(t) // 12)):
                    records.append(dict(id=rid, kind="order", vals=FX.fixseq([float(vals[s_][ti]) for s_ in stages])))
                    index[rid] = dict(model=mname, cascade=dict(cd_), pops="all", ti=ti, stages=stages, vals=[float(vals[s_][ti]) for s_ in stages])
                    rid += 1
        # a later stage that lists a characteristic and one of its own compartments counts that compartment twice: refused, or at least not
        # reported larger than the stage before
        for ch_ in P.framework.characs.index:
            if isinstance(P.framework.characs.at[ch_, "denominator"], str):
                continue
            inc_ = [c_ for c_ in P.framework.get_charac_includes(ch_) if c_ in wcomps or True][:1]
            if not inc_:
                continue
            cd_ = sc.odict([("S1", [ch_]), ("S2", [ch_, inc_[0]])])
            try:
                casc_mod.sanitize_cascade(P.framework, cd_)
            except Exception:
                break  # refused: fine
            vals, t = get_cascade_vals(res, cd_, pops="all")
            stages = list(vals.keys())
            for ti in range(0, len(t), max(1, len(t) // 12)):
                records.append(dict(id=rid, kind="order", vals=FX.fixseq([float(vals[s_][ti]) for s_ in stages])))
                index[rid] = dict(model=mname, cascade=dict(cd_), pops="all", ti=ti, stages=stages, vals=[float(vals[s_][ti]) for s_ in stages])
                rid += 1
            break
        cov["adhoc_three_stage_cascades_accepted"] = cov.get("adhoc_three_stage_cascades_accepted", 0) + len(valid3)
        valid_adhoc = []
        for cd_ in adhoc:
            try:
                casc_mod.sanitize_cascade(P.framework, cd_)
                valid_adhoc.append(cd_)
            except Exception:
                pass  # not a valid cascade for this framework (stages not nested)
        cov["adhoc_cascades"] = cov.get("adhoc_cascades", 0) + len(valid_adhoc)
        # data years: the library databooks mostly hold one year of cascade data, so later years get distinguishable entries (a copy of the databook)
        cdata = sc.dcp(P.data)
        for n_ in list(P.framework.comps.index) + list(P.framework.characs.index):
            for pi_, pp in enumerate(cdata.pops.keys()):
                ts = cdata.get_ts(n_, pp)
                if ts is not None and ts.has_time_data:
                    v0 = float(ts.vals[0])
                    for yi_, yr_ in enumerate(cdata.tvec):
                        if float(yr_) not in [float(x) for x in ts.t]:
                            ts.insert(float(yr_), v0 * (1.0 + 0.125 * (yi_ + 1)) + pi_)
        for cname in list(P.framework.cascades.keys()) + valid_adhoc[: (None if thorough else 6)]:
            cdesc = cname if isinstance(cname, str) else dict(cname)
            for pops_ in (["all"] + m["pops"][:2]):
                vals, t = get_cascade_vals(res, cname, pops=pops_)
                stages = list(vals.keys())
                for ti in range(0, len(t), max(1, len(t) // 12)):
                    records.append(dict(id=rid, kind="order", vals=FX.fixseq([float(vals[s][ti]) for s in stages])))
                    index[rid] = dict(model=mname, cascade=cdesc, pops=pops_, ti=ti, stages=stages, vals=[float(vals[s][ti]) for s in stages])
                    rid += 1
                _, cdict, _ = casc_mod.sanitize_cascade(P.framework, cname)
                plist = list(P.data.pops.keys()) if pops_ == "all" else [pops_]
                dyears = [float(y) for y in cdata.tvec]
                for year in [None, dyears[0], dyears[::-1][:3], dyears[:2]]:
                    dvals, dt_ = get_cascade_data(cdata, P.framework, cascade=cname, pops=pops_, year=year)
                    for stage, cons in cdict.items():
                        cons = [cons] if isinstance(cons, str) else cons
                        for yi, yr in enumerate(dt_):
                            parts = []
                            for code in cons:
                                for pp in plist:
                                    ts = cdata.get_ts(code, pp)
                                    hit = [v for tt, v in zip(ts.t, ts.vals) if tt == yr] if ts is not None else []
                                    parts.append(hit[0] if hit else np.nan)
                            o = float(dvals[stage][yi])
                            if np.all(np.isfinite(parts)) and np.isfinite(o):
                                records.append(dict(id=rid, kind="arith", method="sum", obs=FX.fix(o), parts=FX.fixseq(parts), weights=[]))
                                index[rid] = dict(model=mname, level="data cascade", cascade=cdesc, stage=stage, pops=pops_, year=float(yr), years_requested=year, obs=o, parts=[float(x) for x in parts])
                                rid += 1
                            elif np.all(np.isfinite(parts)) != np.isfinite(o):
                                V.violation("C20 data cascade NaN mismatch", dict(model=mname, cascade=cdesc, stage=stage, pops=pops_, year=float(yr), obs=o, parts=[float(x) for x in parts]))
        # a sequence of plotting / export calls on one result
        import matplotlib
        import matplotlib.pyplot as plt

        d = at.PlotData(res, outputs=m["plain_n"] + [{"aggn": m["agg_n"]}], pops=[{"T": m["pops"]}] + m["pops"][:1])
        at.plot_series(d)
        at.plot_bars(at.PlotData(res, outputs=m["plain_n"], t_bins=10))
        at.plot_cascade(res, pops="all", year=float(res.model.t[5]))
        at.PlotData.programs(res, quantity="coverage_fraction")
        at.PlotData.programs(res, quantity="spending")
        plt.close("all")
        fn = os.path.join(C.scratch(), "export_%d.xlsx" % os.getpid())
        at.export_results(res, fn)
        os.remove(fn)
        # (the tables are checked on a run with four steps per year, so that aggregating over the year differs from interpolating)
        # (tb is the library model whose plots sheet exports number-unit flows, which have a "Total (sum)" row)
        Pq = at.demo("tb", do_run=False) if mname == "hiv" else P
        dt0, e0 = float(Pq.settings.sim_dt), float(Pq.settings.sim_end)
        Pq.settings.update_time_vector(dt=0.25, end=float(Pq.settings.sim_start) + 5)
        resq = Pq.run_sim(Pq.parsets[0], store_results=False)
        resq.name = "r"
        Pq.settings.update_time_vector(dt=dt0, end=e0)
        at.export_results(resq, fn)
        # the exported tables: the "Total (sum)" row of a number quantity is the sum of its population rows (also in the sheet that
        # aggregates over the year), compared at every exported time
        import pandas as pd

        nexp = 0
        for sh in pd.ExcelFile(fn).sheet_names:
            if not sh.startswith("Plot data"):
                continue
            df = pd.read_excel(fn, sheet_name=sh, header=None)
            block, title = [], None
            for _, row in list(df.iterrows()) + [(None, [np.nan] * df.shape[1])]:
                cells = list(row)
                if all(isinstance(c_, float) and np.isnan(c_) for c_ in cells):
                    tot = [r_ for r_ in block if str(r_[1]).startswith("Total (sum)")]
                    parts = [r_ for r_ in block if str(r_[0]) == "r" and not str(r_[1]).startswith("Total")]
                    if tot and parts:
                        for j in range(2, len(tot[0])):
                            pv = [float(r_[j]) for r_ in parts]
                            if np.all(np.isfinite(pv)) and np.isfinite(float(tot[0][j])):
                                records.append(dict(id=rid, kind="arith", method="sum", obs=FX.fix(float(tot[0][j])), parts=FX.fixseq(pv), weights=[]))
                                index[rid] = dict(model=mname, level="exported sheet '%s'" % sh, item=title, column=j, obs=float(tot[0][j]), parts=pv)
                                rid += 1
                                nexp += 1
                    block, title = [], None
                elif title is None:
                    title = str(cells[0])
                else:
                    block.append(cells)
        cov["exported_totals_checked"] = cov.get("exported_totals_checked", 0) + nexp
        os.remove(fn)
        res.get_coverage("fraction")
        res.get_alloc()
        records.append(dict(id=rid, kind="digest", before=before, after=DG.result_digest(res)))
        index[rid] = dict(model=mname, calls="PlotData, plot_series, plot_bars, plot_cascade, PlotData.programs, export_results, get_coverage, get_alloc")
        rid += 1
        # histories that copy, pickle or save the result (all of which re-link the model): what is reported for a parameter's flow (a
        # parameter may drive several links) is the same before and afterwards, on the original and on the copy, and is the sum of its links
        import pickle

        pop0 = res.model.get_pop(m["pops"][0])
        multi = [p.name for p in pop0.pars if len(p.links) >= 2][:3] + [p.name for p in pop0.pars if len(p.links) == 1][:1]
        if multi:
            sel = ["%s:flow" % n for n in multi]

            def flows(r_):
                d_ = at.PlotData(r_, outputs=sel, pops=m["pops"][:1])
                return {s_.output: [float(x) for x in s_.vals] for s_ in d_.series}

            f0 = flows(res)
            for n in multi:
                par_ = pop0.get_par(n)
                tot = np.sum([l.vals / l.dt for l in par_.links], axis=0)
                for ti in (1, len(tot) // 2):
                    records.append(dict(id=rid, kind="arith", method="sum", obs=FX.fix(float(f0["%s:flow" % n][ti])), parts=FX.fixseq([float(l.vals[ti] / l.dt) for l in par_.links]), weights=[]))
                    index[rid] = dict(model=mname, level="flow of a parameter = sum of its links", item=n, ti=ti, obs=float(f0["%s:flow" % n][ti]), parts=[float(l.vals[ti] / l.dt) for l in par_.links])
                    rid += 1
            cp = sc.dcp(res)
            pk = pickle.loads(pickle.dumps(res))
            for what, r_ in (("original after sc.dcp and pickle", res), ("deep copy", cp), ("pickle round trip", pk)):
                f1 = flows(r_)
                records.append(dict(id=rid, kind="history", before=DG.dig(f0), after=DG.dig(f1)))
                index[rid] = dict(model=mname, history=what, items=sel, before={k: v[1:3] for k, v in f0.items()}, after={k: v[1:3] for k, v in f1.items()})
                rid += 1
            cov.setdefault("history_items", []).extend(sel)
            # several results in one request: what is reported for a result does not depend on the other results listed with it or on their
            # order (here a second run of the same model at half the step size; flows are annualised with each result's own step)
            dt_old = float(P.settings.sim_dt)
            P.settings.update_time_vector(dt=dt_old / 2)
            try:
                res2 = P.run_sim(P.parsets[0], P.progsets[0], at.ProgramInstructions(start_year=float(P.settings.sim_start + 2), alloc=P.progsets[0]), store_results=False)
            finally:
                P.settings.update_time_vector(dt=dt_old)
            res2.name = "r2"
            sel2 = sel + [m["plain_n"][0]]

            def per_result(rs):
                d_ = at.PlotData(rs, outputs=sel2, pops=m["pops"][:1])
                return {(s_.result, s_.output): [float(x) for x in s_.vals[:40]] for s_ in d_.series}

            alone = dict(per_result([res]))
            alone.update(per_result([res2]))
            for order in ([res, res2], [res2, res]):
                joint = per_result(order)
                for key in sorted(alone):
                    records.append(dict(id=rid, kind="history", before=DG.dig(alone[key]), after=DG.dig(joint.get(key))))
                    index[rid] = dict(model=mname, history="requested together with another result (order %s)" % [r_.name for r_ in order], items=list(key), before=alone[key][1:3], after=(joint.get(key) or [])[1:3])
                    rid += 1
    # the same request in fresh interpreters with different string hashing: what is reported depends on what was asked for, not on the process
    import subprocess
    import sys as _sys
    import json as _json

    fresh = {}
    for hs in (0, 1, 2, 3):
        p_ = subprocess.run([_sys.executable, "-m", "harness.props_c20", "mixed"], cwd=C.VERIF, env=dict(os.environ, PYTHONHASHSEED=str(hs)), stdout=subprocess.PIPE, stderr=subprocess.STDOUT, text=True, timeout=600)
        lines = [l for l in p_.stdout.splitlines() if l.startswith("FRESH ")]
        if not lines:
            raise C.MachineryError("fresh-process request failed:\n" + p_.stdout[-1500:])
        fresh[hs] = _json.loads(lines[-1][6:])
    for hs in (1, 2, 3):
        for key in sorted(fresh[0]):
            records.append(dict(id=rid, kind="history", before=DG.dig(fresh[0][key]), after=DG.dig(fresh[hs].get(key))))
            index[rid] = dict(model="udt", history="same request in a fresh interpreter (PYTHONHASHSEED 0 vs %d)" % hs, items=[key], before=fresh[0][key][:2], after=(fresh[hs].get(key) or [])[:2])
            rid += 1
    bad, states = C.validate_batch(["Big", "AggregateTrace"], "AggregateTrace", records, ndjson=True, timeout=3000)
    cov["states"] += states
    cov["transitions"] += states
    cov["traces_validated_against_impl"] = len(records)
    for rid_, clause in bad:
        d = index[rid_]
        sig = clause
        if clause == "DependsOnOtherItems":
            s = d.get("series")
            sig += " %s" % ("time bins" if "t_bins" in d["request"] else "pmethod=%s omethod=%s opt=%s" % (s["pmethod"], s["omethod"], d["request"]["opt"]))
        elif clause == "Arithmetic":
            sig += " %s %s" % (d.get("level"), d.get("method", ""))
        V.violation("C20 " + sig, dict(clause=clause, **d))
    cov["samples"] = [index[0], index[len(index) // 2]]
    return V, cov, time.time() - t0


if __name__ == "__main__":
    # fresh-process entry point: aggregations that mix quantities of different units, default methods (nothing but the request decides the value)
    import json as _json

    at_ = C.quiet_atomica()
    P_ = at_.demo("udt", do_run=False)
    r_ = P_.run_sim(P_.parsets[0], store_results=False)
    r_.name = "r"
    F_ = P_.framework
    nums = [c for c in F_.characs.index if not isinstance(F_.characs.at[c, "denominator"], str)][:2]
    rates = [p for p in F_.pars.index if str(F_.pars.at[p, "format"]).lower() in ("rate", "probability") and p in r_.model.pops[0].par_lookup][:2]
    out = {}
    for a_ in nums:
        for b_ in rates:
            for order in ([a_, b_], [b_, a_]):
                d_ = at_.PlotData(r_, outputs=[{"mix": order}], pops=[r_.model.pops[0].name])
                out["+".join(order)] = [float(x) for x in d_.series[0].vals[:6]]
    print("FRESH " + _json.dumps(out))
