"""Shared machinery of the /verif checks: paths, scratch space, TLC driver, evidence and verdict handling.

Exit codes of every check: 0 held (possibly with KNOWN-FINDING lines), 1 violation (VIOLATION line printed),
2 machinery failure (TLC abort, overflow, unparsable output, missing wrapper target).
"""
import atexit
import json
import os
import re
import shutil
import subprocess
import sys
import tempfile
import time

VERIF = os.path.dirname(os.path.dirname(os.path.abspath(__file__)))
REPO = os.environ.get("VERIF_REPO", "/repo")
SPEC = os.path.join(VERIF, "spec")
EVID = os.path.join(VERIF, "evidence")
REPLAY = os.path.join(VERIF, "replay")  # replay files of violations (small json)
PY = "/venv/bin/python"
NCPU = min(16, os.cpu_count() or 4)

os.environ.setdefault("MPLBACKEND", "agg")
os.environ.setdefault("ATOMICA_VERIF", "1")
if REPO not in sys.path:
    sys.path.insert(0, REPO)


class MachineryError(Exception):
    """Something in the verification machinery (not the property) failed: exit 2."""


# ---------------------------------------------------------------- scratch
_scratch = None


def scratch():
    """A per-process scratch directory under /tmp, removed at exit."""
    global _scratch
    if _scratch is None:
        _scratch = tempfile.mkdtemp(prefix="verif-%d-" % os.getpid(), dir="/tmp")
        atexit.register(lambda: shutil.rmtree(_scratch, ignore_errors=True))
    return _scratch


def seed():
    return int(os.environ.get("VERIF_SEED", "0") or 0)


def sample_vectors(rng, grid, n, k):
    """k distinct vectors of length n over the TLA+ value strings in `grid`, as a TLA+ set of tuples (drawn with the harness's seeded
    generator: what TLC's RandomSubset would draw cannot be repeated from one run to the next)."""
    seen = set()
    tries = 0
    while len(seen) < k and tries < 50 * k:
        seen.add(tuple(grid[int(i)] for i in rng.integers(len(grid), size=n)))
        tries += 1
    return "{%s}" % ", ".join("<<%s>>" % ", ".join(v) for v in sorted(seen))


# ---------------------------------------------------------------- TLC
_STAT = re.compile(r"(\d+) states generated, (\d+) distinct states found")
_DEPTH = re.compile(r"The depth of the complete state graph search is (\d+)")
_INV = re.compile(r"Invariant (\S+) is violated")
_APROP = re.compile(r"Action property (\S+) is violated")
_TPROP = re.compile(r"Temporal properties were violated")


class TlcResult:
    def __init__(self, out, rc, wall):
        self.out = out
        self.rc = rc
        self.wall = wall
        m = _STAT.findall(out)
        self.generated, self.distinct = (int(m[-1][0]), int(m[-1][1])) if m else (0, 0)
        if not m:
            g = re.findall(r"The number of states generated: (\d+)", out)
            if g:
                self.generated = self.distinct = int(g[-1])
        d = _DEPTH.findall(out)
        self.depth = int(d[-1]) if d else 0
        self.violated = _INV.findall(out) + _APROP.findall(out) + (["<temporal>"] if _TPROP.search(out) else [])
        self.finished = "Model checking completed" in out or "Finished in" in out
        self.overflow = "Overflow when computing" in out
        self.postcondition_failed = "Post-condition" in out and "violated" in out or "POSTCONDITION" in out and "violated" in out
        self.error = None
        if self.overflow:
            self.error = "TLC integer overflow"
        elif "Error:" in out and not self.violated and not self.postcondition_failed:
            self.error = out[out.index("Error:"):][:2000]

    def coverage_counts(self):
        """Per-action counts from -coverage output: {action: (distinct, total)}"""
        res = {}
        for m in re.finditer(r"<(\w+) line \d+, col \d+ to line \d+, col \d+ of module (\w+)>: (\d+):(\d+)", self.out):
            res[m.group(1)] = (int(m.group(3)), int(m.group(4)))
        return res


def run_tlc(workdir, module, cfg=None, workers=None, timeout=1200, extra=(), env=None, xss=None, simulate=None, dump=None, coverage=False):
    """Run TLC on `module`.tla inside workdir. Returns TlcResult. Raises MachineryError on abort/timeout."""
    meta = tempfile.mkdtemp(prefix="meta-", dir=scratch())
    cmd = ["tlc", "-workers", str(workers or NCPU), "-noGenerateSpecTE", "-metadir", meta, "-seed", str(seed())]  # (the seed fixes what RandomSubset draws: sampled cases are reproducible per VERIF_SEED)
    if cfg:
        cmd += ["-config", cfg]
    if simulate:
        cmd += ["-simulate", simulate]
    if dump:
        cmd += ["-dump", dump]
    if coverage:
        cmd += ["-coverage", "1"]
    cmd += list(extra) + [module]
    e = dict(os.environ)
    # a fixed heap per JVM (the default, a quarter of the machine per JVM, lets a dozen concurrent trace validations exhaust the memory)
    jto = ["-Xmx%s" % os.environ.get("VERIF_TLC_HEAP", "8g" if (workers or NCPU) >= 8 else "4g" if (workers or NCPU) > 1 else "3g")]
    if xss:
        jto.append("-Xss%s" % xss)
    if env:
        for k, v in env.items():
            if k == "JAVA_TOOL_OPTIONS":
                jto.append(v)
            else:
                e[k] = v
    if jto:
        e["JAVA_TOOL_OPTIONS"] = " ".join(jto)
    t0 = time.time()
    try:
        p = subprocess.run(cmd, cwd=workdir, env=e, stdout=subprocess.PIPE, stderr=subprocess.STDOUT, timeout=timeout, text=True)
    except subprocess.TimeoutExpired as ex:
        subprocess.run(["pkill", "-f", meta], check=False)
        raise MachineryError("TLC timed out after %ss on %s" % (timeout, module)) from ex
    finally:
        shutil.rmtree(meta, ignore_errors=True)
    r = TlcResult(p.stdout, p.returncode, time.time() - t0)
    return r


def tlc_ok(r, what):
    """Raise MachineryError if TLC aborted for a reason that is not a property verdict."""
    if r.error:
        raise MachineryError("TLC failed on %s: %s" % (what, r.error[:1500]))
    if not r.finished and not r.violated and not r.postcondition_failed:
        raise MachineryError("TLC did not finish on %s:\n%s" % (what, r.out[-1500:]))


_OBS = re.compile(r'obs = "((?:[^"\\]|\\.)*)"')


def parse_obs(text):
    """Extract the JSON payloads of `obs = "<escaped json>"` lines from a TLC dump / simulate file."""
    out = []
    for m in _OBS.finditer(text):
        s = json.loads('"' + m.group(1) + '"')
        if s:
            out.append(json.loads(s))
    return out


def prepare_specdir(modules, generated=None):
    """Copy the named spec modules (and generated module texts {name: text}) into a fresh scratch dir."""
    d = tempfile.mkdtemp(prefix="spec-", dir=scratch())
    for m in modules:
        for ext in (".tla", ".cfg"):
            p = os.path.join(SPEC, m + ext)
            if os.path.exists(p):
                shutil.copy(p, d)
    for name, text in (generated or {}).items():
        with open(os.path.join(d, name), "w") as f:
            f.write(text)
    return d


# ---------------------------------------------------------------- TLA+ literal helpers
def tla_rat(fr):
    from fractions import Fraction
    fr = Fraction(fr)
    return "<<%d,%d>>" % (fr.numerator, fr.denominator)


def tla_str(s):
    return '"%s"' % s


def tla_seq(items):
    return "<<%s>>" % ",".join(items)


def tla_set(items):
    return "{%s}" % ",".join(items)


def tla_bool(b):
    return "TRUE" if b else "FALSE"


# ---------------------------------------------------------------- known findings / verdicts
def load_known():
    p = os.path.join(VERIF, "known_findings.json")
    if not os.path.exists(p):
        return {"findings": [], "fixed": []}
    return json.load(open(p))


class Verdict:
    """Collects violations of one property in one run and separates known findings from new ones."""

    def __init__(self, prop):
        self.prop = prop
        self.known = [f for f in load_known().get("findings", []) if f["property"] == prop]
        self.new = []  # (signature, detail, replay_path)
        self.seen_known = {}
        self.drift = []

    def violation(self, signature, detail):
        """signature: short stable string identifying call site + input class. detail: json-able replay content."""
        for f in self.known:
            if re.fullmatch(f["signature"], signature):
                self.seen_known.setdefault(f["id"], (f, detail))
                return False
        if any(sig == signature for sig, _, _ in self.new):
            self.repeats = getattr(self, "repeats", 0) + 1
            return True
        if len(self.new) < 50:
            os.makedirs(REPLAY, exist_ok=True)
            path = os.path.join(REPLAY, "%s-%d.json" % (self.prop, len(self.new)))
            with open(path, "w") as fh:
                json.dump({"property": self.prop, "signature": signature, "detail": detail}, fh, indent=1, default=str)
            self.new.append((signature, detail, path))
        return True

    def note_drift(self, msg):
        if len(self.drift) < 20:
            self.drift.append(msg)
        print("DRIFT property=%s %s" % (self.prop, msg))

    def finish(self):
        for fid, (f, detail) in self.seen_known.items():
            print("KNOWN-FINDING: property=%s %s" % (self.prop, f["what"]))
        for sig, detail, path in self.new:
            print("VIOLATION property=%s replay=%s" % (self.prop, path))
            print("   signature: %s" % sig)
        return 1 if self.new else 0


def write_evidence(prop, tier, level, coverage, wall, violations, assumptions=()):
    global EVID
    EVID = os.environ.get("VERIF_EVIDENCE_DIR", EVID)  # (the self-test writes its evidence to scratch space)
    os.makedirs(EVID, exist_ok=True)
    ev = {
        "property_id": prop,
        "tier": tier,
        "seed": seed(),
        "level": level,
        "coverage": coverage,
        "assumptions": list(assumptions),
        "wall_s": round(wall, 2),
        "violations": violations,
    }
    with open(os.path.join(EVID, prop + ".json"), "w") as f:
        json.dump(ev, f, indent=1, default=str)
    return ev


def quiet_atomica():
    import warnings

    warnings.filterwarnings("ignore")
    import atomica as at

    at.logger.setLevel("ERROR")
    return at


# ---------------------------------------------------------------- case enumeration / batch trace validation
def enumerate_cases(modules, root, cfg_text, workers=None, timeout=900, generated=None):
    """Run TLC on `root` (one of modules) with cfg_text, dump the state graph and return (TlcResult, obs cases)."""
    gen = dict(generated or {})
    gen["_enum.cfg"] = cfg_text
    d = prepare_specdir(modules, gen)
    dump = os.path.join(d, "dump")
    r = run_tlc(d, root, cfg="_enum.cfg", workers=workers, timeout=timeout, dump=dump)
    if r.violated:
        out = r.out
        shutil.rmtree(d, ignore_errors=True)
        raise MachineryError("specification property %s refuted by TLC on %s (design/spec problem, not an implementation verdict):\n%s" % (r.violated, root, out[-3000:]))
    tlc_ok(r, root)
    cases = parse_obs(open(dump + ".dump").read())
    shutil.rmtree(d, ignore_errors=True)
    return r, cases


_PAIR = re.compile(r'<<(-?\d+), "(\w+)"(?:, (-?\d+))?>>')


def validate_batch(modules, root, records, timeout=1200, chunks=None, ndjson=False, cfg_text=None):
    """Write records to a JSON trace and let TLC (module `root`, INVARIANT Verdict / POSTCONDITION Consumed) judge them.
    Returns (list of (id, clause), states). The records are split into `chunks` files validated in parallel."""
    from concurrent.futures import ThreadPoolExecutor

    if not records:
        return [], 0
    if os.environ.get("VERIF_NEGATIVE_CONTROL"):
        records = corrupt_one(records, int(os.environ["VERIF_NEGATIVE_CONTROL"] or 1))
    chunks = chunks or min(NCPU, max(1, len(records) // 200))
    parallel = min(chunks, int(os.environ.get("VERIF_TLC_PARALLEL", "8")))  # JVMs at a time (3 GB each at most)
    parts = [records[k::chunks] for k in range(chunks)]

    def one(part):
        gen = {}
        if cfg_text:
            gen[root + ".cfg"] = cfg_text
        d = prepare_specdir(modules, gen)
        path = os.path.join(d, "trace.json")
        with open(path, "w") as f:
            if ndjson:
                for rec in part:
                    f.write(json.dumps(rec) + "\n")
            else:
                json.dump(part, f)
        r = run_tlc(d, root, cfg=root + ".cfg", workers=1, env={"TRACE_FILE": path}, xss="512m", timeout=timeout)
        bad = []
        if "Verdict" in r.violated:
            k = r.out.rfind("/\\ bad = ")
            seg = r.out[k:]
            end = seg.find("\n/\\", 3)
            seg = seg if end < 0 else seg[:end]
            bad = [(int(a), b) for a, b, _ in _PAIR.findall(seg)]
            if not bad:
                raise MachineryError("%s: Verdict violated but no failing clause parsed:\n%s" % (root, r.out[-2000:]))
        else:
            tlc_ok(r, root)
            if r.postcondition_failed:
                raise MachineryError("%s did not consume its trace:\n%s" % (root, r.out[-1000:]))
        shutil.rmtree(d, ignore_errors=True)
        return bad, r.distinct

    with ThreadPoolExecutor(parallel) as ex:
        res = list(ex.map(one, parts))
    return [b for bad, _ in res for b in bad], sum(n for _, n in res)


def corrupt_one(records, salt=1):
    """Negative control (./check selftest): change one observed field of one record - a limb-encoded number is increased by
    about 2^-15 of its magnitude plus 2^-30, a digest string gets another first character - so that the trace specification,
    if it really constrains that field, must reject the batch."""
    import copy

    def hit(o, state):
        if isinstance(o, dict):
            if set(o.keys()) == {"s", "m"}:
                state["n"] += 1
                if state["n"] == state["target"]:
                    m = list(o["m"]) + [0] * max(0, 3 - len(o["m"]))
                    k = max(0, len(m) - 2)
                    m[k] = (m[k] + 1) % 32768
                    m[1 if len(m) > 1 else 0] = (m[1 if len(m) > 1 else 0] + 1) % 32768
                    o["m"] = m
                    if o["s"] == 0:
                        o["s"] = 1
                    state["done"] = True
                return
            for k, v in o.items():
                if state["done"]:
                    return
                if isinstance(v, str) and k in ("a", "b", "before", "after", "result", "sampled", "outcome") and len(v) > 3:
                    state["n"] += 1
                    if state["n"] == state["target"]:
                        o[k] = ("X" if v[0] != "X" else "Y") + v[1:]
                        state["done"] = True
                        return
                else:
                    hit(v, state)
        elif isinstance(o, list):
            for v in o:
                if state["done"]:
                    return
                hit(v, state)

    recs = copy.deepcopy(records)
    # corrupt the (salt)-th observed field of up to 400 records spread over the batch (a single record may be one whose
    # corrupted field the property legitimately ignores, e.g. the allocation of a case that was refused or the totals of an aborted run)
    step = max(1, len(recs) // 400)
    for idx in range(step // 2, len(recs), step):
        hit(recs[idx], dict(n=0, target=salt, done=False))
    return recs
