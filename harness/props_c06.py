"""C06: parameter values follow data x calibration -> function -> program -> limits (spec/ParamPipeline.tla)."""
import io
import math
import time
from fractions import Fraction as Fr

import numpy as np

from . import common as C
from . import fix as FX

NONE = [-1, 1]


def fr(x):
    return Fr(x[0], x[1])


_FW = {}


def framework(at, lim):
    key = str(lim)
    if key in _FW:
        return _FW[key]
    import sciris as sc
    import xlsxwriter

    f = io.BytesIO()
    wb = xlsxwriter.Workbook(f)
    wb.set_properties({"category": "atomica:framework"})

    def sheet(name, rows):
        ws = wb.add_worksheet(name)
        for i, r in enumerate(rows):
            for j, c in enumerate(r):
                if c is not None:
                    ws.write(i, j, c)

    sheet("Databook Pages", [["Datasheet Code Name", "Datasheet Title"], ["sv", "State"], ["pa", "Pars"]])
    sheet("Compartments", [["Code Name", "Display Name", "Is Source", "Is Sink", "Is Junction", "Setup Weight", "Default Value", "Databook Page"],
                           ["ca", "C a", "n", "n", "n", 1, 0, "sv"], ["cb", "C b", "n", "n", "n", 1, 0, "sv"], ["cd", "C d", "n", "y", "n", 0, None, None]])
    names = ["ca", "cb", "cd"]
    M = {a: {b: None for b in names} for a in names}
    M["ca"]["cb"] = "r"
    M["cb"]["cd"] = "m"
    M["cb"]["ca"] = "km"
    sheet("Transitions", [["Transition Matrix"] + names] + [[a] + [M[a][b] for b in names] for a in names])
    sheet("Characteristics", [["Code Name", "Display Name", "Components", "Denominator", "Default Value", "Setup Weight", "Databook Page"], ["alive", "Ch alive", "ca, cb", None, 0, 0, None]])
    lo = None if lim[0] == NONE else float(fr(lim[0]))
    hi = None if lim[1] == NONE else float(fr(lim[1]))
    rows = [["Code Name", "Display Name", "Format", "Timescale", "Default Value", "Minimum Value", "Maximum Value", "Function", "Databook Page", "Targetable"],
            ["base", "P base", None, None, 0.3, None, None, None, "pa", "n"],
            ["f1", "P f1", None, None, None, lo, hi, "base*2 + 1", "pa", "n"],
            ["f2", "P f2", None, None, None, None, None, "f1 + (t - 2000)", None, "n"],
            ["h", "P h", None, None, None, None, None, "f1 + f2", None, "n"],
            ["r", "P r", "probability", 1, None, 0, 0.4, "min(f2, 5)/10", None, "n"],
            ["m", "P m", "rate", 1, 0.3, 0, 1.5, None, "pa", "y"],
            ["km", "P km", "probability", 1, None, 0, 1, "m/2", None, "n"],
            ["g", "P g", None, None, None, 0.1, None, "ca / max(alive, 1) * f1", None, "n"],
            # a chain of output parameters (evaluated after the run) whose first member is held by its maximum: the dependent must see the clipped value
            ["w", "P w", None, None, None, None, 10, "cb", None, "n"],
            ["w2", "P w2", None, None, None, None, None, "w*3 + 1", None, "n"],
            ["w3", "P w3", None, None, None, 40, None, "w2 - r:flow", None, "n"]]
    sheet("Parameters", rows)
    wb.close()
    Fw = at.ProjectFramework(sc.Spreadsheet(f))
    D = at.ProjectData.new(Fw, np.array([2000.0]), pops=sc.odict([("p0", "Pop 0")]), transfers=0)
    _FW[key] = (Fw, D)
    return _FW[key]


def run_case(at, c0):
    import sciris as sc
    from atomica.programs import Covout
    from atomica.utils import TimeSeries

    c = c0["case"]
    K = c0["k"]
    dt = float(fr(c0["dt"]))
    Fw, D = framework(at, c["lim"])
    ps = at.ParameterSet(Fw, sc.dcp(D))
    pop = "p0"
    ts = ps.pars["base"].ts[pop]
    ts.t, ts.vals, ts.assumption = [], [], None
    for (yr, v) in c["data"]:
        if yr == NONE:
            ts.assumption = float(fr(v))
        else:
            ts.insert(float(fr(yr)), float(fr(v)))
    ps.pars["base"].y_factor[pop] = float(fr(c["fac"][0]))
    ps.pars["base"].meta_y_factor = float(fr(c["fac"][1]))
    ps.pars["f1"].y_factor[pop] = float(fr(c["fac"][2]))
    for n, v in (("ca", 100.0), ("cb", 20.0)):
        t_ = ps.pars[n].ts[pop]
        t_.t, t_.vals, t_.assumption = [], [], v
    mts = ps.pars["m"].ts[pop]
    mts.t, mts.vals, mts.assumption = [], [], 0.3
    S = at.ProjectSettings(2000, 2000 + (K - 1) * dt + dt / 2, dt)
    P = at.Project(framework=Fw, do_run=False)
    P.settings = S
    on, first, val = c["scen"]
    if on:
        scen = at.ParameterScenario(name="s", interpolation="previous")
        scen.add("f1", pop, [2000 + first * dt], [float(fr(val))])
        ps = scen.get_parset(ps, P)
    pg, ins = None, None
    pon, i0, i1, cov_, out_, bl_ = c["prog"]
    if pon:
        pg = at.ProgramSet.new(tvec=np.array([2000.0]), progs=sc.odict([("P1", "Prog 1")]), framework=Fw, data=D)
        pr = pg.programs["P1"]
        pr.target_pops, pr.target_comps = [pop], ["cb"]
        pr.spend_data = TimeSeries(assumption=100.0, units="$/year")
        pr.unit_cost = TimeSeries(assumption=1.0, units="$/person/year")
        pg.covouts[("m", pop)] = Covout("m", pop, {"P1": float(fr(out_))}, baseline=float(fr(bl_)))
        ins = at.ProgramInstructions(start_year=2000 + i0 * dt, stop_year=2000 + i1 * dt, coverage={"P1": float(fr(cov_))})
    res = at.run_model(S, Fw, ps, pg, ins)
    return res, ps


def safe_eval(fcn_str, env):
    """Independent evaluation of a framework function string on scalars (own whitelist, ordinary Python arithmetic; a/b = 0 when a = 0)."""
    import ast

    tree = ast.parse(fcn_str.replace(":", "___"), mode="eval")
    fns = {"max": max, "min": min, "exp": math.exp, "floor": math.floor, "cos": math.cos, "sin": math.sin, "sqrt": math.sqrt, "ln": math.log, "pi": math.pi}

    def ev(n):
        if isinstance(n, ast.Expression):
            return ev(n.body)
        if isinstance(n, ast.Constant):
            return float(n.value)
        if isinstance(n, ast.Name):
            return fns[n.id] if n.id in fns and n.id not in env else env[n.id]
        if isinstance(n, ast.UnaryOp):
            v = ev(n.operand)
            return -v if isinstance(n.op, ast.USub) else v
        if isinstance(n, ast.BinOp):
            a, b = ev(n.left), ev(n.right)
            if isinstance(n.op, ast.Add):
                return a + b
            if isinstance(n.op, ast.Sub):
                return a - b
            if isinstance(n.op, ast.Mult):
                return a * b
            if isinstance(n.op, ast.Div):
                return 0.0 if a == 0 else a / b
            if isinstance(n.op, ast.Pow):
                return a ** b
            if isinstance(n.op, ast.Mod):
                return a % b
            if isinstance(n.op, ast.FloorDiv):
                return a // b
        if isinstance(n, ast.Compare) and len(n.ops) == 1:
            a, b = ev(n.left), ev(n.comparators[0])
            op = n.ops[0]
            return float({ast.Lt: a < b, ast.LtE: a <= b, ast.Gt: a > b, ast.GtE: a >= b, ast.Eq: a == b, ast.NotEq: a != b}[type(op)])
        if isinstance(n, ast.Call) and isinstance(n.func, ast.Name) and n.func.id in fns:
            return fns[n.func.id](*[ev(a) for a in n.args])
        raise ValueError("unsupported node %s" % type(n).__name__)

    return ev(tree)


def relations(at, res, parset, label, records, index, rid, V, tis, progs_active=None):
    """Function / data / limits relations on every parameter of a finished run at the time indices tis."""
    from atomica.model import Link, Parameter, Characteristic, Compartment

    m = res.model
    for pop in m.pops:
        for par in pop.pars:
            if par.vals is None or par.derivative:
                continue
            lo, hi = (par.limits if par.limits is not None else (None, None))
            haslo = lo is not None and np.isfinite(lo)
            hashi = hi is not None and np.isfinite(hi)
            lim = dict(lo=FX.fix(lo if haslo else 0.0), hi=FX.fix(hi if hashi else 0.0), haslo=bool(haslo), hashi=bool(hashi))
            skip = par.skip_function
            for ti in tis:
                if ti >= len(m.t) - 1:
                    continue
                v = float(par.vals[ti])
                t = float(m.t[ti])
                if progs_active and (par.name, pop.name, ti) in progs_active:
                    continue
                if par.pop_aggregation and not (skip and skip[0] <= t <= skip[1]):
                    continue  # cross-population aggregations are evaluated by the model itself; only their suspension by a scenario is checked here
                if par.fcn_str and not (skip and skip[0] <= t <= skip[1]):
                    env = {"t": t, "dt": float(m.dt)}
                    ok = True
                    for dn, deps in par.deps.items():
                        tot = 0.0
                        for dep in deps:
                            if isinstance(dep, Link):
                                tot += float(dep.vals[ti]) / dep.dt
                            else:
                                tot += float(dep[ti]) if isinstance(dep, Compartment) else float(dep.vals[ti])
                        env[dn.replace(":", "___")] = tot
                    try:
                        f = float(safe_eval(par.fcn_str, env))
                    except Exception:
                        ok = False
                    if not ok or not np.isfinite(f):
                        continue
                    if not np.isfinite(v):
                        V.violation("C06 non-finite function parameter", dict(label=label, par=par.name, pop=pop.name, ti=ti, val=v, f=f))
                        continue
                    records.append(dict(id=rid, kind="fn", val=FX.fix(v), f=FX.fix(f), yf=FX.fix(f * float(par.scale_factor)), **lim))
                    index[rid] = dict(label=label, par=par.name, pop=pop.name, ti=ti, val=v, f=f, scale=float(par.scale_factor), limits=[lo, hi], fcn=par.fcn_str)
                    rid += 1
                elif par.name in parset.pars and parset.pars[par.name].has_values(pop.name):
                    pp = parset.pars[par.name]
                    want = float(pp.interpolate(np.array([t]), pop.name)[0]) * float(pp.y_factor[pop.name]) * float(pp.meta_y_factor)
                    if not np.isfinite(want):
                        continue
                    if not np.isfinite(v):
                        V.violation("C06 non-finite data / scenario parameter", dict(label=label, par=par.name, pop=pop.name, ti=ti, val=v, want=want, skip_function=skip))
                        continue
                    records.append(dict(id=rid, kind="data", val=FX.fix(v), want=FX.fix(want), **lim))
                    index[rid] = dict(label=label, par=par.name, pop=pop.name, ti=ti, val=v, want=want, limits=[lo, hi])
                    rid += 1
    return rid


def run(prop, tier):
    t0 = time.time()
    at = C.quiet_atomica()
    V = C.Verdict(prop)
    thorough = tier == "thorough"
    cfg = open(C.SPEC + "/ParamPipeline.cfg").read()
    r, cases = C.enumerate_cases(["Rat", "ParamPipeline", "MCParamPipeline"], "MCParamPipeline", cfg, timeout=1800)
    cov = dict(states=r.distinct, transitions=r.generated, traces_validated_against_impl=0, samples=[], exhaustive=True, cases=len(cases))
    records, index = [], {}
    rid = 0
    for ci, c0 in enumerate(cases):
        try:
            res, ps_case = run_case(at, c0)
        except Exception as ex:
            V.violation("C06 generated case raised %s" % type(ex).__name__, dict(case=c0["case"], error=str(ex)[:300]))
            continue
        mp = res.model.pops[0]
        vals_ = c0["vals"]
        if isinstance(vals_, dict):
            vals_ = [vals_[str(k)] for k in range(len(vals_))]
        for k, want in enumerate(vals_):
            for name in ("base", "f1", "f2", "h", "r", "m", "km"):
                o = float(mp.get_par(name).vals[k])
                if not np.isfinite(o):
                    sc_on = c0["case"]["scen"][0]
                    V.violation("C06 parameter %s is not finite%s" % (name if name in ("base", "m") else "fn", " (scenario on a function parameter)" if sc_on else ""), dict(case=c0["case"], par=name, k=k, want=str(fr(want[name]))))
                    continue
                records.append(dict(id=rid, kind="exact", want=want[name], obs=FX.fix(o)))
                index[rid] = dict(label="generated pipeline case", case=c0["case"], par=name, k=k, want=str(fr(want[name])), obs=o)
                rid += 1
        if ci % 5 == 0:
            active = set()
            pon, i0, i1 = c0["case"]["prog"][:3]
            if pon:
                active = {("m", "p0", k) for k in range(i0, i1 + 1)}
            rid = relations(at, res, ps_case, "generated pipeline case", records, index, rid, V, range(c0["k"]), progs_active=active)
    # ---- relations on library runs (functions of compartments, characteristics, flows, other parameters, time)
    for name in (["udt", "tb_simple", "hiv", "tb"] if not thorough else ["udt", "usdt", "tb_simple", "hiv", "hypertension", "diabetes", "cervicalcancer", "tb"]):
        P = at.demo(name, do_run=False)
        ps = P.parsets[0]
        if name == "tb":
            P.settings.update_time_vector(end=float(P.settings.sim_start) + 6)
        for variant in ("as is", "calibration factors"):
            q = ps
            if variant != "as is":
                import sciris as sc

                q = sc.dcp(ps)
                for j, par in enumerate(q.all_pars()):
                    par.meta_y_factor = [1.0, 1.25, 0.8][j % 3]
                    for pn in par.y_factor:
                        par.y_factor[pn] = [1.0, 0.9, 1.1][(j + 1) % 3]
            try:
                res = P.run_sim(q, store_results=False)
            except Exception as ex:
                if type(ex).__name__ == "BadInitialization":
                    continue
                raise
            T = len(res.model.t)
            rid = relations(at, res, q, dict(model=name, variant=variant), records, index, rid, V, sorted({0, 1, 2, T // 2, T - 2}))
    # ---- scenarios on function parameters of library models, incl. cross-population aggregations, first overwrite year on and off the grid
    for name in (["tb_simple", "tb"] if not thorough else ["udt", "tb_simple", "hiv", "hypertension", "tb"]):
        P = at.demo(name, do_run=False)
        ps = P.parsets[0]
        s0, dt = float(P.settings.sim_start), float(P.settings.sim_dt)
        P.settings.update_time_vector(end=s0 + 5)
        base = P.run_sim(ps, store_results=False)
        allf = [p for p in P.framework.pars.index if isinstance(P.framework.pars.at[p, "function"], str) and p in ps.pars]
        agg = [p for p in allf if P.framework.pars.at[p, "function"].startswith(("SRC_POP", "TGT_POP"))]
        fpars = [p for p in allf if P.framework.transitions.get(p)]
        for par in (agg[:2] + [p for p in fpars if p not in agg][:2]):
            for Y in (s0 + 2, s0 + 2 + dt / 2):
                for pop in list(ps.pop_names)[:2]:
                    mp = base.model.get_pop(pop)
                    if par not in mp.par_lookup:
                        continue
                    cur = float(np.nan_to_num(mp.get_par(par).vals[2], nan=0.05))
                    scen = at.ParameterScenario(name="s", interpolation="previous")
                    scen.add(par, pop, [Y], [cur * 1.5 + 0.01])
                    ps2 = scen.get_parset(ps, P)
                    res = P.run_sim(ps2, store_results=False)
                    T = len(res.model.t)
                    rid = relations(at, res, ps2, dict(model=name, variant="scenario on function parameter %s in %s from %s" % (par, pop, Y)), records, index, rid, V, range(0, T - 1))
    # ---- a databook row entered once for all populations ("All"): every population has its own series in the parameter set, so a
    # scenario (or a direct edit) for one population leaves the others with the databook series
    import sciris as sc

    for name in (["hiv"] if not thorough else ["hiv", "hypertension", "tb"]):
        P = at.demo(name, do_run=False)
        s0, dt = float(P.settings.sim_start), float(P.settings.sim_dt)
        P.settings.update_time_vector(end=s0 + 5)
        data = sc.dcp(P.data)
        pops = list(data.pops.keys())
        shared = [p for p in P.framework.pars.index if p in data.tdve and not isinstance(P.framework.pars.at[p, "function"], str) and P.framework.transitions.get(p)
                  and all(data.tdve[p].ts[q].has_data for q in pops if q in data.tdve[p].ts) and pops[0] in data.tdve[p].ts][:2]
        for par in shared:
            row = data.tdve[par].ts[pops[0]].copy()
            data.tdve[par].ts = sc.odict([("All", row)])
        ps = at.ParameterSet(P.framework, data, "all-row")
        base = P.run_sim(ps, store_results=False)
        for par in shared:
            for how in ("scenario", "direct edit"):
                ps2 = sc.dcp(ps)
                cur = float(base.model.get_pop(pops[0]).get_par(par).vals[2])
                if how == "scenario":
                    scen = at.ParameterScenario(name="s", interpolation="previous")
                    scen.add(par, pops[0], [s0 + 2], [cur * 1.5 + 0.01])
                    ps2 = scen.get_parset(ps2, P)
                else:
                    ps2.pars[par].ts[pops[0]].insert(s0 + 2, cur * 1.5 + 0.01)
                    ps2.pars[par].ts[pops[0]].insert(s0 + 4, cur * 2.5 + 0.01)
                res = P.run_sim(ps2, store_results=False)
                for pop in pops[1:]:
                    for ti in range(0, len(res.model.t) - 1):
                        v = float(res.model.get_pop(pop).get_par(par).vals[ti])
                        b = float(base.model.get_pop(pop).get_par(par).vals[ti])
                        records.append(dict(id=rid, kind="data", val=FX.fix(v), want=FX.fix(b), lo=FX.fix(0.0), hi=FX.fix(0.0), haslo=False, hashi=False))
                        index[rid] = dict(label=dict(model=name, variant="'All' databook row, %s for %s only" % (how, pops[0])), par=par, pop=pop, ti=ti, val=v, want=b)
                        rid += 1
        cov.setdefault("all_row_parameters", []).append(dict(model=name, pars=shared))
    bad, states = C.validate_batch(["Rat", "Big", "ParamPipelineTrace"], "ParamPipelineTrace", records, ndjson=True, timeout=3000)
    cov["states"] += states
    cov["transitions"] += states
    cov["traces_validated_against_impl"] = len(records)
    for rid_, clause in bad:
        d = index[rid_]
        lab = d["label"]
        V.violation("C06 %s %s par=%s" % (clause, lab if isinstance(lab, str) else lab.get("model"), d["par"] if isinstance(lab, str) else "*"), dict(clause=clause, **d))
    cov["samples"] = [cases[0], cases[len(cases) // 2]]
    # ---- the pipeline inside the engine: worlds whose parameters are functions of the same-step state (compartments, characteristics
    # with denominators, other parameters in chains and diamonds, limits that bind), explored exhaustively and replayed
    from . import engine as E
    from . import worlds as WD

    Wf = [w for w in WD.catalogue(tier) if any(p.get("fn") or p.get("effect") for p in w["pars"])]
    r1 = E.explore(Wf, "r1", 1, ["C06_InLimits"], [])
    if r1["overflow"]:
        raise C.MachineryError("32-bit overflow in worlds %s" % r1["overflow"])
    if r1["violated"]:
        raise C.MachineryError("specification property %s refuted in world %s" % (r1["violated"][0][1], r1["violated"][0][0]))
    outs = E.replay(Wf, r1["cases"])
    cov["states"] += r1["states"]
    cov["transitions"] += r1["transitions"]
    cov["engine_function_worlds"] = [w["id"] for w in Wf]
    cov["engine_function_cases_replayed"] = len(outs)
    for (wid, case), o in zip(r1["cases"], outs):
        if o["mism"]:
            V.violation("C06 engine pipeline %s world=%s" % (o["mism"][0][0], wid.split("_dt")[0]), dict(world=wid, case=case, mismatch=o["mism"]))
    # ... and over several steps from the start-up sequence (parameters are evaluated, the junctions flushed, parameters evaluated again):
    # the dependency order has to hold at every step, not only at the first one where everything is evaluated twice
    Wf2 = [w for w in WD.catalogue_r2(tier) if any(p.get("fn") or p.get("effect") for p in w["pars"])]
    r2 = E.explore_r2(Wf2, 6000 if thorough else 1200, ["C06_InLimits"], [])
    if r2["overflow"]:
        raise C.MachineryError("32-bit overflow in worlds %s" % r2["overflow"])
    if r2["violated"]:
        raise C.MachineryError("specification property %s refuted in world %s" % (r2["violated"][0][1], r2["violated"][0][0]))
    outs2 = E.replay(Wf2, r2["cases"])
    cov["states"] += r2["states"]
    cov["transitions"] += r2["transitions"]
    cov["engine_function_worlds_multistep"] = {w_["id"]: r2["per_world"].get(w_["id"]) for w_ in Wf2}
    cov["engine_function_cases_replayed"] += len(outs2)
    for (wid, case), o in zip(r2["cases"], outs2):
        if o["mism"]:
            V.violation("C06 engine pipeline %s world=%s" % (o["mism"][0][0], wid.split("_dt")[0]), dict(world=wid, case=case, mismatch=o["mism"]))
    # ---- "initial-size data are scaled by calibration factors in the same way": the initialisation cases of InitSolve.tla with
    # fractions and calibration factors (shared machinery with C07, verdicts attributed to C06 here)
    from . import props_c07

    _, cov7, _ = props_c07.run("C06", tier, only=("direct", "frac", "fracunused"), V=V)
    cov["initial_size_cases"] = cov7["traces_validated_against_impl"]
    cov["states"] += cov7["states"]
    cov["transitions"] += cov7["transitions"]
    return V, cov, time.time() - t0


def _parset_of(res):
    return res.parset if getattr(res, "parset", None) is not None else None
