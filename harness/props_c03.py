"""C03: documented unit conversion (engine specification as the independent re-implementation) + exact dt grid."""
import json
import os
import shutil
import time
from fractions import Fraction as Fr

from . import common as C
from . import fix as FX
from . import props_engine


def timegrid(V, cov, thorough):
    gen = None
    if thorough:
        gen = {"MCTimeGrid.tla": open(os.path.join(C.SPEC, "MCTimeGrid.tla")).read()
               .replace("MCStarts == {<<2000,1>>, <<2018,1>>, <<4001,2>>}", "MCStarts == {<<2000,1>>, <<2018,1>>, <<4001,2>>, <<1990,1>>, <<8077,4>>, <<20003,10>>}")
               .replace("<<7,10>>, <<1,1>>, <<2,1>>}", "<<7,10>>, <<1,1>>, <<2,1>>, <<1,52>>, <<1,365>>, <<1,20>>, <<3,4>>, <<5,2>>}")
               .replace("<<17,1>>, <<35,1>>}", "<<17,1>>, <<35,1>>, <<1,4>>, <<7,10>>, <<13,12>>, <<2,1>>, <<3,1>>, <<25,2>>, <<40,1>>}")}
    d = C.prepare_specdir(["Rat", "Big", "TimeGrid", "MCTimeGrid", "TimeGridTrace"], gen)
    r = C.run_tlc(d, "MCTimeGrid", cfg="TimeGrid.cfg", workers=4, dump=os.path.join(d, "cases"), timeout=600)
    if r.violated:
        raise C.MachineryError("TimeGrid specification property refuted: %s\n%s" % (r.violated, r.out[-1500:]))
    C.tlc_ok(r, "TimeGrid")
    cases = C.parse_obs(open(os.path.join(d, "cases.dump")).read())
    at = C.quiet_atomica()
    tr = []
    entry = {}
    for i, c in enumerate(cases):
        s, e, dt = [Fr(*c[k]) for k in ("start", "end", "dt")]
        if (e - s) / dt > 3000:
            continue
        # two entry points: the constructor, and update_time_vector(start, end, dt) on existing settings (what Project(sim_start=..,
        # sim_end=.., sim_dt=..) and Project.update_settings do) - the old step and end year must not leak into the new grid
        for j, how in enumerate(("ProjectSettings(start, end, dt)", "update_time_vector(start, end, dt)", "update_time_vector(start) alone")):
            s_, e_ = s, e
            if j == 0:
                S = at.ProjectSettings(float(s), float(e), float(dt))
            elif j == 1:
                S = at.ProjectSettings()
                S.update_time_vector(start=float(s), end=float(e), dt=float(dt))
            else:
                # only the start year changes (as Project.load_databook does): the grid is start' + k*dt and ends at the first point at or
                # after the end year the settings held (their rounded end, start + n*dt)
                S = at.ProjectSettings(float(s), float(e), float(dt))
                s_, e_ = s + dt / 3, s + c["n"] * dt
                S.update_time_vector(start=float(s_))
            tv = S.tvec
            end1 = float(S.sim_end)
            S.sim_end = S.sim_end  # what calibrate() / run_optimization() do to restore the end year they shortened
            tr.append(dict(id=3 * i + j, start=FX.rat(s_), end=FX.rat(e_), dt=c["dt"], len=len(tv), tv=FX.fixseq(tv), len2=len(S.tvec), end1=FX.fix(end1), end2=FX.fix(float(S.sim_end))))
            entry[3 * i + j] = how
    path = os.path.join(d, "trace.json")
    json.dump(tr, open(path, "w"))
    r2 = C.run_tlc(d, "TimeGridTrace", cfg="TimeGridTrace.cfg", workers=1, env={"TRACE_FILE": path}, xss="512m", timeout=1200)
    bad = []
    if "Verdict" in r2.violated:
        import re

        k = r2.out.rfind("/\\ bad = ")
        bad = [(int(a), b) for a, b in re.findall(r'<<(\d+), "(\w+)">>', r2.out[k:])]
        if not bad:
            raise C.MachineryError("TimeGridTrace: Verdict violated but nothing parsed\n" + r2.out[-1500:])
    else:
        C.tlc_ok(r2, "TimeGridTrace")
        if r2.postcondition_failed:
            raise C.MachineryError("TimeGridTrace did not consume the trace")
    for cid, clause in bad[:40]:
        c = cases[cid // 3]
        V.violation("C03 %s %s" % (clause, entry[cid].split("(")[0]), dict(case=c, clause=clause, entry=entry[cid], observed_len=[t["len"] for t in tr if t["id"] == cid]))
    cov["states"] += r.distinct + r2.distinct
    cov["transitions"] += r.generated + r2.generated
    cov["timegrid_cases"] = len(tr)
    cov["timegrid_failing"] = len(bad)
    cov["traces_validated_against_impl"] += len(tr)
    cov["samples"].append(dict(kind="time grid case", case=cases[0]))
    shutil.rmtree(d, ignore_errors=True)


def run(prop, tier):
    t0 = time.time()
    V, cov, _ = props_engine.run("C03", tier)
    timegrid(V, cov, tier == "thorough")
    return V, cov, time.time() - t0
