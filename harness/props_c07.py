"""C07: initial state matches the databook or the run is refused (spec/InitSolve.tla); characteristic sums stay consistent."""
import io
import time
from fractions import Fraction as Fr

import numpy as np

from . import common as C
from . import fix as FX

COMPS = ["ca", "cb", "cc", "cd"]
NUM = [Fr(0), Fr(1), Fr(5)]
NUMT = [Fr(0), Fr(1), Fr(2), Fr(5)]
FRAC = [Fr(0), Fr(1, 2), Fr(1)]

# rows: (name, members (comp indices 1-based) , denominator row name or None, used for initialization, kind)
STRUCTS = [
    dict(id="direct", rows=[("ca", [1], None, True), ("cb", [2], None, True), ("cc", [3], None, True), ("cd", [4], None, True)]),
    dict(id="nested", rows=[("alive", [1, 2, 3, 4], None, True), ("ab", [1, 2], None, True), ("ca", [1], None, True), ("cc", [3], None, True)]),
    dict(id="overlap", rows=[("ab", [1, 2], None, True), ("bc", [2, 3], None, True), ("ac", [1, 3], None, True), ("cd", [4], None, True)]),
    dict(id="under", rows=[("alive", [1, 2, 3, 4], None, True), ("ca", [1], None, True)]),
    dict(id="over", rows=[("ab", [1, 2], None, True), ("ca", [1], None, True), ("cb", [2], None, True), ("cc", [3], None, True), ("cd", [4], None, True)]),
    dict(id="frac", rows=[("alive", [1, 2, 3, 4], None, True), ("prev", [1, 2], "alive", True), ("ca", [1], None, True), ("cc", [3], None, True)]),
    # a compartment that is not in the databook but has the default value 0 and a blank setup weight: it must start empty ("zero defaults")
    dict(id="zerodef", rows=[("alive", [1, 2, 3, 4], None, True), ("ca", [1], None, True), ("cd", [4], None, True, "default0")]),
    # a characteristic that includes a compartment twice, directly and through a nested characteristic: tot = ca + ab = 2 ca + cb
    dict(id="twice", rows=[("ab", [1, 2], None, False), ("tot", [1, 1, 2], None, True, "components=ca, ab"), ("ca", [1], None, True), ("cc", [3], None, True), ("cd", [4], None, True)]),
    # a nested characteristic reached through two branches: tot = risk + ever, both of which contain ab = ca + cb (tot = 2 ca + 2 cb + cc + cd)
    dict(id="diamond", fixunused=True, rows=[("ab", [1, 2], None, False), ("risk", [1, 2, 3], None, False, "components=ab, cc"), ("ever", [1, 2, 4], None, False, "components=ab, cd"),
                                             ("tot", [1, 2, 3, 1, 2, 4], None, True, "components=risk, ever"), ("ca", [1], None, True), ("cc", [3], None, True), ("cd", [4], None, True)]),
    # an over-determined databook that is inconsistent by a hair (3e-4 on values of 40 .. 100): no assignment meets every quantity to 1e-6
    dict(id="overtiny", rows=[("ab", [1, 2], None, True, "dom=100"), ("ca", [1], None, True, "dom=60"), ("cb", [2], None, True, "dom=40,400003/10000,399997/10000"),
                              ("cc", [3], None, True, "dom=0,5"), ("cd", [4], None, True, "dom=0")]),
    # three compartments outside the databook absorb a total that is 2.7e-6 too small: each would have to be slightly negative; clipping them to zero
    # leaves the total off by more than the stated tolerance
    dict(id="negclip", rows=[("alive", [1, 2, 3, 4], None, True, "dom=1"), ("cd", [4], None, True, "dom=1,10000027/10000000,1000003/1000000")]),
    dict(id="fracunused", rows=[("everybody", [1, 2, 3, 4], None, False), ("share", [1], "everybody", True), ("cb", [2], None, True), ("cc", [3], None, True), ("cd", [4], None, True)]),
]


def rat(x):
    x = Fr(x)
    return "<<%d,%d>>" % (x.numerator, x.denominator)


def worlds_module(thorough):
    out = []
    for s in STRUCTS:
        names = [r[0] for r in s["rows"]]
        dom = ["{%s}" % ",".join(rat(v) for v in ([Fr(v) for v in r[4][4:].split(",")] if len(r) > 4 and r[4].startswith("dom=") else [0] if (len(r) > 4 and r[4] == "default0") or (s.get("fixunused") and not r[3]) else FRAC if r[2] else (NUMT if thorough and len(s["rows"]) <= 4 else NUM))) for r in s["rows"]]
        out.append('[ id |-> "%s", ncomp |-> 4, members |-> <<%s>>, denom |-> <<%s>>, used |-> <<%s>>, dom |-> <<%s>> ]' % (
            s["id"], ",".join("<<%s>>" % ",".join(map(str, r[1])) for r in s["rows"]), ",".join(str(names.index(r[2]) + 1 if r[2] else 0) for r in s["rows"]),
            ",".join("TRUE" if r[3] else "FALSE" for r in s["rows"]), ",".join(dom)))
    return "---- MODULE InitWorlds ----\nEXTENDS Rat\nStructures == <<\n" + ",\n".join(out) + "\n>>\n====\n"


_FW = {}


def framework(at, s):
    if s["id"] in _FW:
        return _FW[s["id"]]
    import sciris as sc
    import xlsxwriter

    f = io.BytesIO()
    wb = xlsxwriter.Workbook(f)
    wb.set_properties({"category": "atomica:framework"})

    def sheet(name, rows):
        ws = wb.add_worksheet(name)
        for i, r in enumerate(rows):
            for j, c in enumerate(r):
                if c is not None:
                    ws.write(i, j, c)

    used = {r[0]: r[3] for r in s["rows"]}
    sheet("Databook Pages", [["Datasheet Code Name", "Datasheet Title"], ["sv", "State"], ["pa", "Pars"]])
    rows = [["Code Name", "Display Name", "Is Source", "Is Sink", "Is Junction", "Setup Weight", "Default Value", "Databook Page"]]
    default0 = {r[0] for r in s["rows"] if len(r) > 4 and r[4] == "default0"}
    explicit = {r[0]: r[4].split("=", 1)[1] for r in s["rows"] if len(r) > 4 and r[4].startswith("components=")}
    for n in COMPS:
        inbook = n in used
        if n in default0:
            rows.append([n, "C " + n, "n", "n", "n", None, 0, None])  # blank setup weight, default value 0, no databook page
        else:
            rows.append([n, "C " + n, "n", "n", "n", 1 if used.get(n) else 0, 0 if inbook else None, "sv" if inbook else None])
    rows.append(["dead", "C dead", "n", "y", "n", 0, None, None])
    sheet("Compartments", rows)
    allc = COMPS + ["dead"]
    M = {a: {b: None for b in allc} for a in allc}
    M["ca"]["cb"] = "r1"
    M["cb"]["cc"] = "r2"
    M["cc"]["cd"] = "r1"
    M["cd"]["ca"] = "r2"
    M["cb"]["dead"] = "mu"
    sheet("Transitions", [["Transition Matrix"] + allc] + [[a] + [M[a][b] for b in allc] for a in allc])
    crow = [["Code Name", "Display Name", "Components", "Denominator", "Default Value", "Setup Weight", "Databook Page"]]
    for (n, members, den, u) in [r[:4] for r in s["rows"]]:
        if n not in COMPS:
            crow.append([n, "Ch " + n, explicit.get(n, ", ".join(COMPS[k - 1] for k in members)), den, 0, 1 if u else 0, "sv"])
    # a characteristic of characteristics and a ratio of characteristics, reported only (consistency over time)
    crow.append(["everyone", "Ch everyone", "ca, cb, cc, cd", None, 0, 0, None])
    crow.append(["firsttwo", "Ch firsttwo", "ca, cb", None, 0, 0, None])
    crow.append(["nest", "Ch nest", "firsttwo, cc", None, 0, 0, None])
    crow.append(["ratio", "Ch ratio", "firsttwo", "everyone", 0, 0, None])
    crow.append(["ratioc", "Ch ratioc", "cd", "cc", 0, 0, None])
    sheet("Characteristics", crow)
    sheet("Cascades", [["Main cascade", "Constituents"], ["Stage all", "ca, cb, cc, cd"], ["Stage first", "ca"]])  # explicit, so that arbitrary (un-nested) characteristics are allowed
    rows = [["Code Name", "Display Name", "Format", "Timescale", "Default Value", "Minimum Value", "Maximum Value", "Function", "Databook Page"],
            ["r1", "P r1", "probability", 1, 0.5, None, None, None, "pa"], ["r2", "P r2", "rate", 1, 2, None, None, None, "pa"], ["mu", "P mu", "rate", 1, 0.1, None, None, None, "pa"]]
    sheet("Parameters", rows)
    wb.close()
    Fw = at.ProjectFramework(sc.Spreadsheet(f))
    D = at.ProjectData.new(Fw, np.array([2000.0]), pops=1, transfers=0)
    _FW[s["id"]] = (Fw, D)
    return _FW[s["id"]]


def fr(x):
    return Fr(x[0], x[1])


def observe(at, s, c):
    import sciris as sc
    from atomica.model import BadInitialization

    Fw, D = framework(at, s)
    ps = at.ParameterSet(Fw, sc.dcp(D))
    pop = ps.pop_names[0]
    for k, r_ in enumerate(s["rows"]):
        n = r_[0]
        if len(r_) > 4 and r_[4] == "default0":  # not a databook quantity: the framework's default value (0) is what initialises it
            continue
        par = ps.pars[n]
        ts = par.ts[pop]
        ts.t, ts.vals = [], []
        ts.assumption = float(fr(c["data"][k]))
        par.y_factor[pop] = float(fr(c["y"][k]))
        par.meta_y_factor = float(fr(c["meta"][k]))
    S = at.ProjectSettings(2000, 2001, 0.25)
    try:
        r = at.run_model(S, Fw, ps)
    except BadInitialization:
        return "refused", None, None, ""
    except Exception as ex:
        return "error", None, None, "%s: %s" % (type(ex).__name__, str(ex)[:200])
    m = r.model.pops[0]
    x = [float(m.get_comp(n).vals[0]) for n in COMPS]
    characs = []
    for ch in m.characs:
        num_comps = ch.get_included_comps()
        for ti in range(len(r.model.t)):
            num = sum(float(cc.vals[ti]) for cc in num_comps)
            if ch.denominator is not None:
                den = float(ch.denominator.vals[ti])
                characs.append((ch.name, ti, float(ch.vals[ti]), num, den, True))
            else:
                characs.append((ch.name, ti, float(ch.vals[ti]), num, 1.0, False))
    return "accepted", x, characs, ""


def structured_states(at, V, records, index, rid, cov):
    """Initial sizes entered in the databook for models with timed compartments and junctions (engine worlds, no injected state): the
    sizes at the first time point - summed over the elapsed-time bins, and after the junctions have been emptied into their
    destinations - reproduce the databook totals; people entered into a junction that has nowhere to go are refused."""
    import sciris as sc

    from . import worlds as WD
    from atomica.model import BadInitialization

    cat = {w["id"]: w for w in WD.catalogue("quick")}
    cases = []
    for wid, vals in (("tfrac", {"a": 100, "v": 60, "d": 0}), ("tlong", {"a": 10, "v": 50, "d": 0}), ("tgroup", {"a": 20, "v": 30, "w": 7, "d": 0})):
        cases.append((wid, vals, None))
    for props_ in ((Fr(1, 2), Fr(1)), (Fr(0), Fr(1)), (Fr(0), Fr(0))):
        cases.append(("jzero", {"a": 64, "j": 16, "b": 8, "c": 0}, props_))
    n = 0
    for wid, vals, props_ in cases:
        w = cat[wid]
        dt = float(w["dt"])
        S = at.ProjectSettings(2000, 2000 + 2 * dt, dt)
        pv = [[(Fr(0) if p["units"] != "duration" and not p["timed"] else p["dom"][0]) for p in w["pars"]] for _ in range(2)]
        if props_ is not None:
            names = [p["name"] for p in w["pars"]]
            for row in pv:
                row[names.index("p0/p1")], row[names.index("p0/p2")] = props_
        Fw, ps = WD.build_parset(w, pv, S.tvec)
        for c in w["comps"]:
            if c["kind"] in ("source", "sink"):
                continue
            ts = ps.pars[c["base"]].ts[c["pop"]]
            ts.t, ts.vals, ts.assumption = [], [], float(vals[c["base"]])
        label = dict(structure="world %s" % wid, databook=vals, proportions=None if props_ is None else [str(x) for x in props_])
        ill = props_ is not None and sum(props_) == 0 and vals.get("j", 0) > 0
        try:
            r = at.run_model(S, Fw, ps)
            outcome = "accepted"
        except BadInitialization:
            outcome, r = "refused", None
        except Exception as ex:
            outcome, r = "error", None
            label["error"] = "%s: %s" % (type(ex).__name__, str(ex)[:200])
        comps = [c for c in w["comps"] if c["kind"] not in ("source", "sink")]
        x = [0.0] * len(comps)
        if r is not None:
            x = [float(r.model.get_pop(c["pop"]).get_comp(c["base"]).vals[0]) for c in comps]
            if not all(np.isfinite(v) for v in x):
                V.violation("C07 non-finite initial sizes%s" % (" (people entered into a junction whose proportions are all zero)" if ill else ""), dict(**label, x=[str(v) for v in x]))
                continue
        if ill and outcome == "accepted":
            V.violation("C07 an initial state that cannot be redistributed was not refused", dict(**label, x=x))
            continue
        total = sum(vals[c["base"]] for c in comps)
        members = [list(range(1, len(comps) + 1))] + [[k + 1] for k, c in enumerate(comps) if c["kind"] in ("normal", "timed") and not any(l["dst"] == c["name"] and cat[wid]["comps"][[cc["name"] for cc in cat[wid]["comps"]].index(l["src"])]["kind"] in ("junction", "resjunction") for l in w["links"])]
        b = [[int(total), 1]] + [[int(vals[comps[m[0] - 1]["base"]]), 1] for m in members[1:]]
        records.append(dict(id=rid, kind="init", outcome=outcome, members=members, used=[True] * len(members), b=b, x=FX.fixseq(x)))
        index[rid] = dict(structure=label["structure"], case=label, b=b, outcome=outcome, x=x, error=label.get("error", ""))
        rid += 1
        n += 1
    # a databook quantity used for initialization that has no value at all: there is nothing to match, the run must be refused
    from atomica.model import BadInitialization as _BI

    byid = {s_["id"]: s_ for s_ in STRUCTS}
    for sid, missing in (("nested", "ca"), ("direct", "cb")):
        s_ = byid[sid]
        Fw, D = framework(at, s_)
        ps = at.ParameterSet(Fw, sc.dcp(D))
        pop = ps.pop_names[0]
        for r_ in s_["rows"]:
            ts = ps.pars[r_[0]].ts[pop]
            ts.t, ts.vals, ts.assumption = [], [], (None if r_[0] == missing else 5.0 * len(r_[1]))
        try:
            r = at.run_model(at.ProjectSettings(2000, 2001, 0.25), Fw, ps)
            x0 = [float(r.model.pops[0].get_comp(c_).vals[0]) for c_ in COMPS]
            V.violation("C07 a missing initialization value was not refused", dict(structure=sid, missing=missing, x=[str(v) for v in x0]))
        except _BI:
            pass
        except Exception as ex:
            V.violation("C07 a missing initialization value was not refused (%s)" % type(ex).__name__, dict(structure=sid, missing=missing, error=str(ex)[:200]))
        n += 1
    cov["structured_initial_states"] = n
    return rid


def run(prop, tier, only=None, V=None):
    t0 = time.time()
    at = C.quiet_atomica()
    V = V or C.Verdict(prop)
    thorough = tier == "thorough"
    fg = "{<<One, One>>, <<<<2,1>>, <<1,2>>>>, <<<<1,2>>, <<3,1>>>>, <<<<3,2>>, <<3,2>>>>}" if thorough else "{<<One, One>>, <<<<2,1>>, <<3,2>>>>}"
    mc = "---- MODULE MCInitSolve ----\nEXTENDS InitSolve\nMCFactorGrid == %s\nMCSolGrid == {<<k,1>> : k \\in 0..5}\n====\n" % fg
    cfg = "SPECIFICATION Spec\nCONSTANTS\n  FactorGrid <- MCFactorGrid\n  SolGrid <- MCSolGrid\nINVARIANT FractionBound\nCHECK_DEADLOCK FALSE\n"
    r, cases = C.enumerate_cases(["Rat", "InitSolve"], "MCInitSolve", cfg, timeout=3000, generated={"InitWorlds.tla": worlds_module(thorough), "MCInitSolve.tla": mc})
    cov = dict(states=r.distinct, transitions=r.generated, traces_validated_against_impl=0, samples=[], exhaustive=True, cases=len(cases), structures=[s["id"] for s in STRUCTS])
    byid = {s["id"]: s for s in STRUCTS}
    records, index = [], {}
    rid = 0
    outcomes = {}
    conservative = 0
    nchar = 0
    for c0 in cases:
        s = byid[c0["s"]]
        if only and s["id"] not in only:
            continue
        outcome, x, characs, err = observe(at, s, c0["case"])
        outcomes[outcome] = outcomes.get(outcome, 0) + 1
        if outcome == "refused" and c0["solvable"]:
            conservative += 1
        records.append(dict(id=rid, kind="init", outcome=outcome, members=[r_[1] for r_ in s["rows"]], used=[r_[3] for r_ in s["rows"]], b=c0["b"],
                            x=FX.fixseq(x) if x else [FX.fix(0.0)] * 4))
        index[rid] = dict(structure=s["id"], case=c0["case"], b=c0["b"], outcome=outcome, x=x, error=err)
        rid += 1
        if characs:  # (every accepted case: which cases produce a ratio below the 1e-6 zero rule must not depend on a sampling stride)
            for (name, ti, val, num, den, hasden) in characs:
                isinf = bool(np.isposinf(val))  # x/0 with x > 0 is reported as +inf: the true value of the ratio, accepted only in that situation
                if not all(np.isfinite(v) for v in (num, den)) or not (np.isfinite(val) or isinf):
                    V.violation("C07 non-finite characteristic %s" % name, dict(structure=s["id"], case=c0["case"], charac=name, ti=ti, val=val, num=num, den=den))
                    continue
                records.append(dict(id=rid, kind="charac", val=FX.fix(0.0 if isinf else val), num=FX.fix(num), den=FX.fix(den), hasden=hasden, isinf=isinf))
                index[rid] = dict(structure=s["id"], case=c0["case"], charac=name, ti=ti, val=val, num=num, den=den)
                rid += 1
                nchar += 1
    if not only:
        rid = structured_states(at, V, records, index, rid, cov)
    bad, states = C.validate_batch(["Rat", "Big", "InitSolveTrace"], "InitSolveTrace", records, timeout=3000)
    cov["states"] += states
    cov["transitions"] += states
    cov["traces_validated_against_impl"] = len(records)
    cov["outcomes"] = outcomes
    cov["refused_although_solvable_on_grid"] = conservative
    cov["characteristic_records"] = nchar
    for rid_, clause in bad:
        d = index[rid_]
        V.violation("%s %s structure=%s%s" % (prop, clause, d["structure"], (" " + d["error"].split(":")[0]) if d.get("error") else ""), dict(clause=clause, **d))
    cov["samples"] = [cases[0], cases[len(cases) // 2]]
    return V, cov, time.time() - t0
