"""C12: Covout.get_outcome against spec/Covout.tla."""
import time
from fractions import Fraction as Fr

import numpy as np

from . import common as C
from . import fix as FX

INVS = ["NonNegW", "SumsToOne", "Marginals", "Convex", "ZeroCov", "Single", "Monotone"]


def cfg(n, small, sample=None):
    s = "SPECIFICATION Spec\nCONSTANTS\n  N = %d\n  Sample %s\n  SampOut <- %s\n  SampCov <- %s\n" % (n, "<- MCNoSample" if not sample else "<- MCSample", "MCNone" if not sample else "MCSampOut", "MCNone" if not sample else "MCSampCov")
    s += "  CovGrid <- %s\n  OutGrid <- %s\n  BaseGrid <- %s\n  Patterns <- %s\n" % (("MCCovSmall", "MCOutSmall", "MCBaseSmall", "MCPatSmall") if small else ("MCCov", "MCOut", "MCBase", "MCPat"))
    # (with five programs the Monotone theorem - every coverage raised to every grid value, 32 combinations each - costs minutes: it is
    # checked up to four programs; the monotone pairs of real outcomes are judged by the trace module for every N)
    s += "".join("INVARIANT %s\n" % i for i in INVS if not (n >= 5 and i == "Monotone")) + "CHECK_DEADLOCK FALSE\n"
    return s


def fr(x):
    return Fr(x[0], x[1])


def make_covout(at, c):
    from atomica.programs import Covout

    n = c["n"]
    names = ["P%d" % (i + 1) for i in range(n)]
    progs = {names[i]: float(fr(c["out"][i])) for i in range(n)}
    imp = ",".join("%s=%r" % ("+".join(names[k - 1] for k in S), float(fr(v))) for S, v in c["explicit"]) or None
    return Covout("par", "pop", progs, cov_interaction=c["mode"], imp_interaction=imp, baseline=float(fr(c["base"]))), names


def observe(at, c, cov=None):
    co, names = make_covout(at, c)
    cv = cov if cov is not None else [float(fr(x)) for x in c["cov"]]
    return float(co.get_outcome({names[i]: np.array([cv[i]]) for i in range(c["n"])}))


def probe(at, c, i):
    """Marginal of program i under the case's coverage interaction: indicator outcomes on every combination containing i."""
    from atomica.programs import Covout
    import itertools

    n = c["n"]
    names = ["P%d" % (k + 1) for k in range(n)]
    progs = {names[k]: (1.0 if k == i else 0.0) for k in range(n)}
    imp = []
    for r in range(2, n + 1):
        for S in itertools.combinations(range(n), r):
            imp.append("%s=%r" % ("+".join(names[k] for k in S), 1.0 if i in S else 0.0))
    co = Covout("par", "pop", progs, cov_interaction=c["mode"], imp_interaction=",".join(imp) or None, baseline=0.0)
    return float(co.get_outcome({names[k]: np.array([float(fr(c["cov"][k]))]) for k in range(n)}))


def run(prop, tier):
    t0 = time.time()
    at = C.quiet_atomica()
    V = C.Verdict(prop)
    thorough = tier == "thorough"
    # (programs, small grids, sample): 1-3 programs over every vector of the grids (the larger grids in the thorough tier); 4 and 5 programs on random
    # outcome / coverage vectors drawn by TLC (RandomSubset)
    plan = [(1, False, None), (2, False, None), (3, not thorough, None)] + ([(4, True, (12, 40))] if thorough else [(4, True, (5, 16))]) + [(5, True, (6, 20) if thorough else (3, 10))]
    cov = dict(states=0, transitions=0, traces_validated_against_impl=0, samples=[], exhaustive=True, plan=[])
    records = []
    cases_all = []
    for n, small, sample in plan:
        gen = None
        if sample:
            rng_ = np.random.default_rng(C.seed() * 1000 + n)
            outs_ = ["<<0,1>>", "<<1,5>>", "<<9,10>>"] if small else ["<<0,1>>", "<<1,5>>", "<<1,2>>", "<<9,10>>"]
            covs_ = ["<<0,1>>", "<<1,4>>", "<<3,4>>", "<<1,1>>"] if small else ["<<0,1>>", "<<1,4>>", "<<1,2>>", "<<3,4>>", "<<1,1>>"]
            gen = {"MCCovout.tla": open(C.SPEC + "/MCCovout.tla").read().replace("====", "MCSample == <<%d, %d>>\nMCSampOut == %s\nMCSampCov == %s\n====" % (
                sample[0], sample[1], C.sample_vectors(rng_, outs_, n, sample[0]), C.sample_vectors(rng_, covs_, n, sample[1])))}
            cov["exhaustive"] = False
            cov["exhaustive_note"] = "1-3 programs exhaustive over the grids; 4 / 5 programs on vectors drawn with the harness's seeded generator (exhaustive enumeration of 4 programs does not finish in 50 minutes)"
        r, cases = C.enumerate_cases(["Rat", "Covout", "MCCovout"], "MCCovout", cfg(n, small, sample), timeout=3000 if thorough else 1500, generated=gen)
        cov["states"] += r.distinct
        cov["transitions"] += r.generated
        cov["plan"].append(dict(N=n, small_grids=small, sampled=list(sample) if sample else None, cases=len(cases)))
        cases_all += cases
    rid = 0
    index = {}
    by_key = {}
    for c in cases_all:
        try:
            o = observe(at, c)
        except Exception as ex:
            V.violation("C12 get_outcome raised %s" % type(ex).__name__, dict(case=c, error=str(ex)[:300]))
            continue
        rec = dict(id=rid, kind="case", cov=c["cov"], out=c["out"], base=c["base"], lo=c["lo"], hi=c["hi"], expect=c["expect"], obs=FX.fix(o))
        index[rid] = c
        records.append(rec)
        rid += 1
        if c["mono"] != 0 and c["n"] >= 2:
            by_key.setdefault((c["n"], str(c["out"]), str(c["base"]), c["mode"], c["pat"], c["mono"]), {})[tuple(fr(x) for x in c["cov"])] = o
    # marginal probes: every (coverage vector, interaction) once per program
    seen = set()
    for c in cases_all:
        if c["n"] < 2:
            continue
        key = (c["n"], str(c["cov"]), c["mode"])
        if key in seen:
            continue
        seen.add(key)
        for i in range(c["n"]):
            records.append(dict(id=rid, kind="probe", want=c["cov"][i], obs=FX.fix(probe(at, c, i))))
            index[rid] = dict(probe=i, **c)
            rid += 1
    # history independence: after sample() (which redraws the outcomes and rewrites the explicit interaction text) the object returns, at
    # every coverage vector, what an object built from its own visible data (outcomes, baseline, interaction text) returns; recorded
    # as "hist" records
    from atomica.programs import Covout as _Covout

    nhist = 0
    for c in [x for x in cases_all if x["n"] >= 2 and x["explicit"]][:: max(1, len(cases_all) // 400)]:
        co, names = make_covout(at, c)
        co.sigma = 0.125
        np.random.seed(C.seed() + rid)
        try:
            co.sample()
            rebuilt = _Covout("par", "pop", dict(co.progs), cov_interaction=co.cov_interaction, imp_interaction=co.imp_interaction, baseline=co.baseline)
            cv = {names[i]: np.array([float(fr(c["cov"][i]))]) for i in range(c["n"])}
            o1, o2 = float(co.get_outcome(cv)), float(rebuilt.get_outcome(cv))
        except Exception as ex:
            V.violation("C12 sample / rebuild raised %s" % type(ex).__name__, dict(case=c, error=str(ex)[:200]))
            continue
        records.append(dict(id=rid, kind="hist", obs1=FX.fix(o1), obs2=FX.fix(o2)))
        index[rid] = dict(probe="sampled object vs the object rebuilt from its visible data", sampled=o1, rebuilt=o2, **c)
        rid += 1
        nhist += 1
    # the same for an edit of the baseline followed by update_outcomes() (the documented way to change it): explicitly specified combination
    # outcomes are the values given, whatever the baseline was when the object was created
    nedit = 0
    for c in [x for x in cases_all if x["n"] >= 2 and x["explicit"]][1:: max(1, len(cases_all) // 400)]:
        co, names = make_covout(at, c)
        try:
            co.baseline = float(co.baseline) + 0.375
            co.update_outcomes()
            rebuilt = _Covout("par", "pop", dict(co.progs), cov_interaction=co.cov_interaction, imp_interaction=co.imp_interaction, baseline=co.baseline)
            cv = {names[i]: np.array([float(fr(c["cov"][i]))]) for i in range(c["n"])}
            o1, o2 = float(co.get_outcome(cv)), float(rebuilt.get_outcome(cv))
        except Exception as ex:
            V.violation("C12 baseline edit / rebuild raised %s" % type(ex).__name__, dict(case=c, error=str(ex)[:200]))
            continue
        records.append(dict(id=rid, kind="hist", obs1=FX.fix(o1), obs2=FX.fix(o2)))
        index[rid] = dict(probe="object after a baseline edit vs the object rebuilt from its visible data", edited=o1, rebuilt=o2, **c)
        rid += 1
        nedit += 1
    cov["sample_history_probes"] = nhist
    cov["baseline_edit_history_probes"] = nedit
    # monotonicity pairs: raise one coverage to the next grid value
    npairs = 0
    for key, d in by_key.items():
        sgn = key[5]
        for cv, o in d.items():
            for i in range(len(cv)):
                ups = sorted(x for x in {v[i] for v in d} if x > cv[i])
                if ups:
                    cv2 = cv[:i] + (ups[0],) + cv[i + 1:]
                    if cv2 in d and (npairs < 40000):
                        records.append(dict(id=rid, kind="pair", sgn=sgn, obs1=FX.fix(o), obs2=FX.fix(d[cv2])))
                        index[rid] = dict(pair=True, key=[str(k) for k in key], cov1=[str(x) for x in cv], cov2=[str(x) for x in cv2])
                        rid += 1
                        npairs += 1
    bad, states = C.validate_batch(["Rat", "Big", "CovoutTrace"], "CovoutTrace", records, timeout=3000)
    cov["states"] += states
    cov["transitions"] += states
    cov["traces_validated_against_impl"] = len(records)
    cov["cases"] = len(cases_all)
    cov["marginal_probes"] = len(seen)
    cov["monotone_pairs"] = npairs
    for rid_, clause in bad[:60]:
        c = index[rid_]
        V.violation("C12 %s mode=%s n=%s" % (clause, c.get("mode", c.get("key", ["", "", "", "?"])[3] if "key" in c else "?"), c.get("n", "?")), dict(clause=clause, case=c))
    cov["samples"] = [cases_all[0], cases_all[len(cases_all) // 2]]
    return V, cov, time.time() - t0
