"""Importable mapping function for Ensemble probes (pickled by reference by the worker pool)."""
COMPS = []


def mapping(results, **kw):
    import atomica as at

    return at.PlotData(results, outputs=COMPS, pops="total")
