"""./check <property> [--tier quick|thorough] [--replay file]"""
import argparse
import json
import os
import sys
import time
import traceback

from . import common as C

ENGINE = {"C01", "C02", "C04", "C05"}
LEVEL = "model_checking"


def dispatch(prop, tier):
    if prop in ENGINE:
        from . import props_engine

        return props_engine.run(prop, tier)
    mod = __import__("harness.props_%s" % prop.lower(), fromlist=["run"])
    return mod.run(prop, tier)


def selftest(props):
    """Binding self-test: with one observed field of one record corrupted, every trace-validated check must raise an alarm."""
    import subprocess

    ok = True
    for p in props:
        env = dict(os.environ, VERIF_NEGATIVE_CONTROL="1", VERIF_EVIDENCE_DIR=os.path.join(C.scratch(), "ev"))
        r = subprocess.run([sys.executable, "-m", "harness.cli", p, "--tier", "quick"], cwd=C.VERIF, env=env, stdout=subprocess.PIPE, stderr=subprocess.STDOUT, text=True)
        alarm = r.returncode == 1 and "VIOLATION" in r.stdout
        print("selftest %s: corrupted trace %s (exit %d)" % (p, "REJECTED as it must be" if alarm else "ACCEPTED - the trace specification does not constrain the corrupted field", r.returncode))
        ok = ok and alarm
    return 0 if ok else 1


def main(argv=None):
    if (argv or sys.argv[1:])[:1] == ["selftest"]:
        rest = (argv or sys.argv[1:])[1:]
        return selftest(rest or ["C%02d" % k for k in range(1, 21)])
    ap = argparse.ArgumentParser()
    ap.add_argument("prop")
    ap.add_argument("--tier", default=os.environ.get("VERIF_TIER", "quick"))
    ap.add_argument("--replay")
    a = ap.parse_args(argv)
    if a.replay:
        d = json.load(open(a.replay))
        print(json.dumps(d, indent=1, default=str)[:6000])
        return 0
    t0 = time.time()
    try:
        V, cov, wall = dispatch(a.prop, a.tier)
    except C.MachineryError as e:
        print("MACHINERY-ERROR property=%s %s" % (a.prop, e))
        return 2
    except Exception:
        traceback.print_exc()
        print("MACHINERY-ERROR property=%s unexpected exception" % a.prop)
        return 2
    rc = V.finish()
    cov["known_findings_seen"] = [f["id"] for f, _ in V.seen_known.values()]
    cov["drift"] = V.drift
    C.write_evidence(a.prop, a.tier, LEVEL, cov, time.time() - t0, len(V.new), assumptions=cov.pop("assumptions", []))
    print("%s tier=%s exit=%d wall=%.1fs states=%s traces=%s" % (a.prop, a.tier, rc, time.time() - t0, cov.get("states"), cov.get("traces_validated_against_impl")))
    return rc


if __name__ == "__main__":
    sys.exit(main())
