"""./check <property> [--tier quick|thorough] [--replay file]"""
import argparse
import json
import os
import sys
import time
import traceback

from . import common as C

ENGINE = {"C01", "C02", "C04", "C05"}
LEVEL = "model_checking"


def dispatch(prop, tier):
    if prop in ENGINE:
        from . import props_engine

        return props_engine.run(prop, tier)
    mod = __import__("harness.props_%s" % prop.lower(), fromlist=["run"])
    return mod.run(prop, tier)


def main(argv=None):
    ap = argparse.ArgumentParser()
    ap.add_argument("prop")
    ap.add_argument("--tier", default=os.environ.get("VERIF_TIER", "quick"))
    ap.add_argument("--replay")
    a = ap.parse_args(argv)
    if a.replay:
        d = json.load(open(a.replay))
        print(json.dumps(d, indent=1, default=str)[:6000])
        return 0
    t0 = time.time()
    try:
        V, cov, wall = dispatch(a.prop, a.tier)
    except C.MachineryError as e:
        print("MACHINERY-ERROR property=%s %s" % (a.prop, e))
        return 2
    except Exception:
        traceback.print_exc()
        print("MACHINERY-ERROR property=%s unexpected exception" % a.prop)
        return 2
    rc = V.finish()
    cov["known_findings_seen"] = [f["id"] for f, _ in V.seen_known.values()]
    cov["drift"] = V.drift
    C.write_evidence(a.prop, a.tier, LEVEL, cov, time.time() - t0, len(V.new), assumptions=cov.pop("assumptions", []))
    print("%s tier=%s exit=%d wall=%.1fs states=%s traces=%s" % (a.prop, a.tier, rc, time.time() - t0, cov.get("states"), cov.get("traces_validated_against_impl")))
    return rc


if __name__ == "__main__":
    sys.exit(main())
