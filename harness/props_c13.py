"""C13: active programs set targeted parameters exactly, and reports match the run (spec/ProgStep.tla)."""
import time

import numpy as np

from . import common as C
from . import digest as DG
from . import fix as FX


class ProgObserver:
    """Captures, per time index, what Model.update_pars fed to ProgramSet.get_outcomes and what came back."""

    def __enter__(self):
        import atomica.model as M
        import atomica.programs as PR

        self.M, self.PR = M, PR
        self.o_up, self.o_go, self.o_gpc = M.Model.update_pars, PR.ProgramSet.get_outcomes, PR.Program.get_prop_covered
        me = self
        self.cur = None
        self.log = {}

        def update_pars(model):
            me.cur = (id(model), model._t_index)
            try:
                return me.o_up(model)
            finally:
                me.cur = None

        def get_outcomes(ps, prop_coverage):
            out = me.o_go(ps, prop_coverage)
            if me.cur is not None:
                rec = me.log.setdefault(me.cur, {})
                rec["cov"] = {k: float(np.ravel(v)[0]) for k, v in prop_coverage.items()}
                rec["out"] = {k: float(v) for k, v in out.items()}
            return out

        def get_prop_covered(prog, tvec, capacity, eligible):
            res = me.o_gpc(prog, tvec, capacity, eligible)
            if me.cur is not None:
                me.log.setdefault(me.cur, {}).setdefault("cap", {})[prog.name] = (float(np.ravel(capacity)[0]), float(np.ravel(eligible)[0]), float(np.ravel(res)[0]))
            return res

        M.Model.update_pars = update_pars
        PR.ProgramSet.get_outcomes = get_outcomes
        PR.Program.get_prop_covered = get_prop_covered
        return self

    def __exit__(self, *a):
        self.M.Model.update_pars = self.o_up
        self.PR.ProgramSet.get_outcomes = self.o_go
        self.PR.Program.get_prop_covered = self.o_gpc


_GEN = {}


def gen_project(at, dt):
    """A generated model whose program set targets what no library model targets: non-transition function parameters that feed no
    transition (one of data only, one of compartments), a non-transition data parameter, a number transition, through a continuous
    and a one-off program, at any step size."""
    import io

    import sciris as sc
    import xlsxwriter
    from atomica.programs import Covout
    from atomica.utils import TimeSeries

    if "fw" not in _GEN:
        f = io.BytesIO()
        wb = xlsxwriter.Workbook(f)
        wb.set_properties({"category": "atomica:framework"})

        def sheet(name, rows):
            ws = wb.add_worksheet(name)
            for i, r in enumerate(rows):
                for j, c in enumerate(r):
                    if c is not None:
                        ws.write(i, j, c)

        sheet("Databook Pages", [["Datasheet Code Name", "Datasheet Title"], ["sv", "State"], ["pa", "Pars"]])
        sheet("Compartments", [["Code Name", "Display Name", "Is Source", "Is Sink", "Is Junction", "Setup Weight", "Default Value", "Databook Page"],
                               ["ca", "C a", "n", "n", "n", 1, 0, "sv"], ["cb", "C b", "n", "n", "n", 1, 0, "sv"], ["cd", "C d", "n", "y", "n", 0, None, None]])
        names = ["ca", "cb", "cd"]
        M = {a: {b: None for b in names} for a in names}
        M["ca"]["cb"] = "r"
        M["cb"]["ca"] = "n"
        M["cb"]["cd"] = "m"
        sheet("Transitions", [["Transition Matrix"] + names] + [[a] + [M[a][b] for b in names] for a in names])
        sheet("Characteristics", [["Code Name", "Display Name", "Components", "Denominator", "Default Value", "Setup Weight", "Databook Page"], ["alive", "Ch alive", "ca, cb", None, 0, 0, None]])
        sheet("Parameters", [["Code Name", "Display Name", "Format", "Timescale", "Default Value", "Minimum Value", "Maximum Value", "Function", "Databook Page", "Targetable", "Is Derivative"],
                             ["base", "P base", None, None, 0.3, None, None, None, "pa", "n"],
                             ["qual", "P qual", None, None, None, 0, 3, "2*base", None, "y"],
                             ["share", "P share", None, None, None, None, None, "0.5*cb/max(alive,1)", None, "y"],
                             ["dataout", "P dataout", None, None, 0.25, None, 0.9, None, "pa", "y"],
                             ["r", "P r", "probability", 1, 0.1, 0, 1, None, "pa", "y"],
                             ["n", "P n", "number", 1, 5, 0, None, None, "pa", "y"],
                             ["m", "P m", "rate", 1, 0.2, 0, 1.5, None, "pa", "y"],
                             # a derivative parameter (its function gives the rate of change per year, the databook the initial value) targeted by a program
                             ["dv", "P dv", "probability", 1, 0.1, 0, 0.4, "0*base", "pa", "y", "y"]])
        sheet("Cascades", [["Cascade", "Constituents"], ["Alive", "alive"], ["B", "cb"]])
        wb.close()
        Fw = at.ProjectFramework(sc.Spreadsheet(f))
        D = at.ProjectData.new(Fw, np.array([2000.0]), pops=sc.odict([("p0", "Pop 0"), ("p1", "Pop 1")]), transfers=0)
        for pop, (a, b) in (("p0", (800.0, 200.0)), ("p1", (300.0, 30.0))):
            for nme, v in (("ca", a), ("cb", b)):
                ts = D.tdve[nme].ts[pop]
                ts.t, ts.vals, ts.assumption = [], [], v
        pg = at.ProgramSet.new(tvec=np.array([2000.0]), progs=sc.odict([("P1", "Prog 1"), ("P2", "Prog 2")]), framework=Fw, data=D)
        p1, p2 = pg.programs["P1"], pg.programs["P2"]
        p1.target_pops, p1.target_comps = ["p0"], ["ca"]
        p1.spend_data = TimeSeries(assumption=300.0, units="$/year")
        p1.unit_cost = TimeSeries(assumption=1.0, units="$/person/year")
        p2.target_pops, p2.target_comps = ["p0", "p1"], ["cb"]
        p2.spend_data = TimeSeries(assumption=90.0, units="$/year")
        p2.unit_cost = TimeSeries(assumption=1.5, units="$/person (one-off)")
        pg.covouts[("m", "p0")] = Covout("m", "p0", {"P1": 0.05}, baseline=0.3)
        pg.covouts[("qual", "p0")] = Covout("qual", "p0", {"P1": 2.5, "P2": 4.0}, baseline=0.5)
        pg.covouts[("share", "p0")] = Covout("share", "p0", {"P2": 0.75}, baseline=0.125)
        pg.covouts[("share", "p1")] = Covout("share", "p1", {"P2": 0.5}, baseline=0.25)
        pg.covouts[("dataout", "p0")] = Covout("dataout", "p0", {"P1": 1.5}, baseline=0.125)
        pg.covouts[("n", "p0")] = Covout("n", "p0", {"P2": 0.5}, baseline=0.0)
        pg.covouts[("r", "p0")] = Covout("r", "p0", {"P1": 0.5, "P2": 0.25}, baseline=0.0625)
        pg.covouts[("dv", "p0")] = Covout("dv", "p0", {"P1": 0.12}, baseline=0.0)
        _GEN["fw"] = (Fw, D, pg)
    Fw, D, pg = _GEN["fw"]

    class Shim:
        def __init__(self):
            self.settings = at.ProjectSettings(2000, 2012, dt)
            self.framework = Fw

        def run_sim(self, ps, pg_=None, ins=None, store_results=False):
            return at.run_model(self.settings, Fw, ps, pg_, ins)

    return Shim(), at.ParameterSet(Fw, sc.dcp(D)), sc.dcp(pg)


def run_swapped(at, P, ps, pg, ins):
    """The model is built with other instructions (half the budget), the caller then assigns the instructions that count and processes the model
    (what an optimisation does with its unpickled model): the run and its reports are those of the instructions in place when it is processed."""
    import sciris as sc

    old = sc.dcp(ins)
    for k in old.alloc:
        old.alloc[k].vals = [0.5 * float(v) for v in old.alloc[k].vals]
        if old.alloc[k].assumption is not None:
            old.alloc[k].assumption = 0.5 * float(old.alloc[k].assumption)
    m = at.Model(P.settings, P.framework, ps, pg, old)
    m.program_instructions = sc.dcp(ins)
    m.process()
    return at.Result(model=m, parset=ps, name="swapped")


def check_run(at, P, ps, pg, make_ins, label, records, index, rid, V):
    import sciris as sc

    ins = make_ins()
    with ProgObserver() as ob:
        res = run_swapped(at, P, ps, pg, ins) if label.get("route") == "instructions assigned between build and process" else P.run_sim(ps, pg, ins, store_results=False)
    m = res.model
    mid = id(m)
    dt = float(m.dt)
    T = len(m.t)
    nop = P.run_sim(ps, store_results=False)
    active = [ti for ti in range(T) if (mid, ti) in ob.log and "out" in ob.log[(mid, ti)]]
    # gate: programs act exactly at the indices with start <= t <= stop
    should = [ti for ti in range(T) if ins.start_year <= m.t[ti] <= ins.stop_year]
    # (update_pars at the last index still evaluates programs; the start-up sequence calls it twice at index 0)
    records.append(dict(id=rid, kind="same", a=[FX.fix(float(x)) for x in active], b=[FX.fix(float(x)) for x in should]))
    index[rid] = dict(label=label, what="gate: active indices", active=active[:5] + active[-3:], should=should[:5] + should[-3:])
    rid += 1
    targeted = set()
    for ti in active:
        rec = ob.log[(mid, ti)]
        for (par_name, pop_name), outcome in rec["out"].items():
            targeted.add((par_name, pop_name))
            par = m.get_pop(pop_name).get_par(par_name)
            if par.derivative:
                # the program sets the rate of change (per year) of a derivative parameter: next value = value + outcome * dt, within the limits
                if ti < T - 1:
                    lo, hi = (par.limits if par.limits is not None else (None, None))
                    haslo = lo is not None and np.isfinite(lo)
                    hashi = hi is not None and np.isfinite(hi)
                    x0, x1 = float(par.vals[ti]), float(par.vals[ti + 1])
                    if not (np.isfinite(x0) and np.isfinite(x1) and np.isfinite(outcome)):
                        V.violation("C13 non-finite targeted parameter", dict(label=label, par=par_name, pop=pop_name, ti=ti, val=[x0, x1], outcome=outcome))
                        continue
                    records.append(dict(id=rid, kind="deriv", x0=FX.fix(x0), x1=FX.fix(x1), outcome=FX.fix(outcome), dt=FX.fix(dt), lo=FX.fix(lo if haslo else 0.0), hi=FX.fix(hi if hashi else 0.0),
                                        haslo=bool(haslo), hashi=bool(hashi)))
                    index[rid] = dict(label=label, what="derivative parameter under a program: next value = value + outcome * dt", par=par_name, pop=pop_name, ti=ti, dt=dt, x0=x0, x1=x1, outcome=outcome, limits=[lo, hi])
                    rid += 1
                continue
            units = str(par.units).lower()
            n = 0.0
            if units == "number":
                n = float(sum(float(l.source[ti]) for l in par.links))
            lo, hi = (par.limits if par.limits is not None else (None, None))
            haslo = lo is not None and np.isfinite(lo)
            hashi = hi is not None and np.isfinite(hi)
            v = float(par.vals[ti])
            if not np.isfinite(v) or not np.isfinite(outcome):
                V.violation("C13 non-finite targeted parameter", dict(label=label, par=par_name, pop=pop_name, ti=ti, val=v, outcome=outcome))
                continue
            records.append(dict(id=rid, kind="value", units=units if units in ("number", "probability", "rate") else "other", outcome=FX.fix(outcome), popsize=FX.fix(n), dt=FX.fix(dt),
                                lo=FX.fix(lo if haslo else 0.0), hi=FX.fix(hi if hashi else 0.0), haslo=bool(haslo), hashi=bool(hashi), val=FX.fix(v)))
            index[rid] = dict(label=label, par=par_name, pop=pop_name, ti=ti, units=units, outcome=outcome, popsize=n, dt=dt, limits=[lo, hi], val=v)
            rid += 1
    # reports of the finished result vs what was in force (the caller's instructions are edited in place first: the result must not care)
    frac = res.get_coverage("fraction")
    cap = res.get_coverage("capacity")
    elig = res.get_coverage("eligible")
    alloc0 = {k: np.array(v, dtype=float) for k, v in res.get_alloc().items()}
    for k in list(ins.alloc.keys()):
        ins.alloc[k].vals = [x * 3.0 + 1.0 for x in ins.alloc[k].vals]
    alloc1 = {k: np.array(v, dtype=float) for k, v in res.get_alloc().items()}
    frac1 = res.get_coverage("fraction")
    for k in alloc0:
        records.append(dict(id=rid, kind="same", a=FX.fixseq(alloc0[k][::7]), b=FX.fixseq(alloc1[k][::7])))
        index[rid] = dict(label=label, what="reported spending changes when the caller edits the instructions after the run", prog=k)
        rid += 1
        records.append(dict(id=rid, kind="same", a=FX.fixseq(np.array(frac[k], dtype=float)[::7]), b=FX.fixseq(np.array(frac1[k], dtype=float)[::7])))
        index[rid] = dict(label=label, what="reported coverage changes when the caller edits the instructions after the run", prog=k)
        rid += 1
    for ti in active[:: max(1, len(active) // 25)]:
        rec = ob.log[(mid, ti)]
        # the spending equivalent to the coverage that prevailed is the spending in force wherever that coverage came from spending and is
        # neither complete nor at the capacity / saturation limit (one-off and continuous programs, any step size)
        try:
            eq = res.get_equivalent_alloc(year=float(m.t[ti]))
        except Exception as ex:
            eq = None
            V.violation("C13 equivalent spending report failed", dict(label=label, ti=ti, error="%s: %s" % (type(ex).__name__, str(ex)[:120])))
        for prog, c in rec["cov"].items():
            pr_ = m.progset.programs[prog]
            if eq is not None and prog not in ins.coverage and prog not in getattr(ins, "capacity", {}) and 1e-6 < c < 1 - 1e-6 and not pr_.capacity_constraint.has_data and np.isfinite(float(np.ravel(eq[prog])[0])):
                sat_ok = (not pr_.saturation.has_data) or c < 0.95 * float(pr_.saturation.interpolate(np.array([m.t[ti]]), method="previous")[0])
                if sat_ok:
                    records.append(dict(id=rid, kind="close", a=FX.fix(float(np.ravel(eq[prog])[0])), b=FX.fix(float(alloc0[prog][ti]))))
                    index[rid] = dict(label=label, what="equivalent spending reported for the prevailing coverage vs spending in force", prog=prog, ti=ti, reported=float(np.ravel(eq[prog])[0]), in_force=float(alloc0[prog][ti]),
                                      one_off=bool(pr_.is_one_off), dt=dt)
                    rid += 1
            records.append(dict(id=rid, kind="same", a=[FX.fix(min(c, 1.0))], b=[FX.fix(float(frac[prog][ti]))]))
            index[rid] = dict(label=label, what="reported coverage fraction vs coverage in force", prog=prog, ti=ti, in_force=c, reported=float(frac[prog][ti]))
            rid += 1
            if prog in ins.coverage:
                # the coverage prevailing in this step under an overwrite: min(1, c) for continuous programs, min(1, c * dt) for one-off ones
                cyr = float(ins.coverage[prog].interpolate(np.array([m.t[ti]]), method="previous")[0])
                one_off = m.progset.programs[prog].is_one_off
                records.append(dict(id=rid, kind="cov", cov=FX.fix(c), cap=FX.fix(cyr * dt if one_off else cyr), elig=FX.fix(1.0)))
                index[rid] = dict(label=label, what="coverage in force vs coverage overwrite in the instructions", prog=prog, ti=ti, in_force=c, per_year=cyr, one_off=bool(one_off), dt=dt)
                rid += 1
            if prog in rec.get("cap", {}):
                capv, eligv, covv = rec["cap"][prog]
                one_off = m.progset.programs[prog].is_one_off
                records.append(dict(id=rid, kind="same", a=[FX.fix(capv / dt if one_off else capv), FX.fix(eligv)], b=[FX.fix(float(cap[prog][ti])), FX.fix(float(elig[prog][ti]))]))
                index[rid] = dict(label=label, what="reported capacity / eligible vs values in force", prog=prog, ti=ti, in_force=[capv, eligv], reported=[float(cap[prog][ti]), float(elig[prog][ti])])
                rid += 1
                pr = m.progset.programs[prog]
                parts = [float(m.get_pop(pp).get_comp(cc).vals[ti]) for pp in pr.target_pops for cc in pr.target_comps]
                records.append(dict(id=rid, kind="sum", total=FX.fix(eligv), parts=FX.fixseq(parts)))
                index[rid] = dict(label=label, what="eligible = current size of the targeted compartments", prog=prog, ti=ti, eligible=eligv, parts=parts)
                rid += 1
                if pr.saturation.has_data and prog not in ins.coverage:
                    sat_t = float(pr.saturation.interpolate(np.array([m.t[ti]]), method="previous")[0])
                    records.append(dict(id=rid, kind="le", a=FX.fix(covv), b=FX.fix(min(1.0, sat_t))))
                    index[rid] = dict(label=label, what="coverage in force vs the saturation level of that year", prog=prog, ti=ti, cov=covv, saturation=sat_t)
                    rid += 1
                if not pr.saturation.has_data and prog not in ins.coverage:
                    records.append(dict(id=rid, kind="cov", cov=FX.fix(covv), cap=FX.fix(capv), elig=FX.fix(eligv)))
                    index[rid] = dict(label=label, what="coverage from capacity and eligible", prog=prog, ti=ti, cov=covv, cap=capv, elig=eligv)
                    rid += 1
    # untargeted: data parameters that no program targets (and that have no function) are the same as without programs; before the start
    # year and after the stop year the targeted data parameters have their non-program values
    for pop in m.pops:
        nopop = nop.model.get_pop(pop.name)
        for par in pop.pars:
            if par.fcn_str or par.derivative or par.vals is None:
                continue
            other = nopop.get_par(par.name)
            if (par.name, pop.name) in targeted:
                idx = [ti for ti in range(T - 1) if ti not in active]
            else:
                idx = list(range(T - 1))
            if idx:
                records.append(dict(id=rid, kind="same", a=FX.fixseq(np.array(par.vals, dtype=float)[idx][::5]), b=FX.fixseq(np.array(other.vals, dtype=float)[idx][::5])))
                index[rid] = dict(label=label, what="parameter outside the programs' reach (or outside the active window) differs from the run without programs", par=par.name, pop=pop.name, targeted=(par.name, pop.name) in targeted)
                rid += 1
    return rid, len(active)


def run(prop, tier):
    t0 = time.time()
    at = C.quiet_atomica()
    V = C.Verdict(prop)
    thorough = tier == "thorough"
    r_ = None
    d = C.prepare_specdir(["Rat", "ProgStep", "MCProgStep"])
    r_ = C.run_tlc(d, "MCProgStep", cfg="ProgStep.cfg", workers=4, timeout=600)
    if r_.violated:
        raise C.MachineryError("ProgStep specification property refuted: %s" % r_.violated)
    C.tlc_ok(r_, "ProgStep")
    cov = dict(states=r_.distinct, transitions=r_.generated, traces_validated_against_impl=0, samples=[], exhaustive=False, runs=[])
    records, index = [], {}
    rid = 0
    from atomica.utils import TimeSeries

    for name in (["udt", "tb_simple", "hiv"] + (["usdt", "hypertension", "tb", "diabetes", "cervicalcancer"] if thorough else [])):
        P = at.demo(name, do_run=False)
        ps, pg = P.parsets[0], P.progsets[0]
        s0 = float(P.settings.sim_start)
        dt = float(P.settings.sim_dt)
        progs = list(pg.programs.keys())
        variants = {
            "start on grid": lambda: at.ProgramInstructions(start_year=s0 + 3, alloc=pg),
            "start off grid, stop year": lambda: at.ProgramInstructions(start_year=s0 + 2 + dt / 3, stop_year=s0 + 6 + dt / 2, alloc=pg),
            "budget change": lambda: at.ProgramInstructions(start_year=s0 + 2, alloc={progs[0]: TimeSeries([s0 + 2, s0 + 5], [float(pg.programs[progs[0]].spend_data.interpolate(s0 + 2, method="previous")[0]), 3.0 * float(pg.programs[progs[0]].spend_data.interpolate(s0 + 2, method="previous")[0]) + 10.0])}),
            "coverage and capacity overwrites": lambda: at.ProgramInstructions(start_year=s0 + 2, alloc=pg, coverage={progs[0]: TimeSeries([s0 + 2, s0 + 4], [0.2, 0.9])}, capacity={progs[-1]: TimeSeries([s0 + 2, s0 + 4], [100.0, 5000.0])}),
        }
        for vname, mk in list(variants.items()) + ([("start on grid", variants["start on grid"])] if name == "udt" else []):
            if not thorough and name != "udt" and vname in ("budget change",):
                continue
            label = dict(model=name, instructions=vname)
            if any(r_["label"] == label for r_ in cov["runs"]):  # the second pass for udt: the other way of getting instructions into a model
                label = dict(label, route="instructions assigned between build and process")
            try:
                rid, nact = check_run(at, P, ps, pg, mk, label, records, index, rid, V)
                cov["runs"].append(dict(label=label, active_steps=nact))
            except Exception as ex:
                V.violation("C13 run with programs raised %s" % type(ex).__name__, dict(label=label, error=str(ex)[:300]))
    for dt in ([0.25, 2.0] if not thorough else [0.25, 0.1, 1.0, 2.0, 1.0 / 12]):
        P, ps, pg = gen_project(at, dt)
        variants = {
            "generated: spending": lambda: at.ProgramInstructions(start_year=2002.0, alloc=pg),
            "generated: coverage overwrites above 1/year, off-grid start, stop year": lambda: at.ProgramInstructions(start_year=2001.0 + dt / 3, stop_year=2009.0 + dt / 2, alloc=pg,
                                                                                                                  coverage={"P2": TimeSeries([2001.0, 2006.0], [2.0, 0.5]), "P1": 0.625}),
            "generated: spending, saturation falling over time": lambda: at.ProgramInstructions(start_year=2001.0, alloc=pg),
            "generated: spending, unit cost rising in steps": lambda: at.ProgramInstructions(start_year=2001.0, alloc=pg),
            "generated: scalar capacity and zero spending": lambda: at.ProgramInstructions(start_year=2002.0, alloc={"P1": 0, "P2": TimeSeries([2002.0, 2007.0], [90.0, 600.0])}, capacity={"P1": 100.0}),
        }
        for vname, mk in variants.items():
            label = dict(model="generated dt=%g" % dt, instructions=vname)
            pg_ = pg
            if "saturation" in vname:
                import sciris as sc

                pg_ = sc.dcp(pg)
                pg_.programs["P1"].saturation = TimeSeries([2000.0, 2004.0, 2008.0], [0.9, 0.5, 0.25], units="N.A.")
                pg_.programs["P1"].spend_data = TimeSeries(assumption=3000.0, units="$/year")
            if "unit cost rising" in vname:
                import sciris as sc

                pg_ = sc.dcp(pg)
                pg_.programs["P1"].unit_cost = TimeSeries([2000.0, 2004.0, 2008.0], [1.0, 1.5, 3.0], units="$/person/year")
                pg_.programs["P2"].unit_cost = TimeSeries([2000.0, 2005.0], [1.5, 2.5], units="$/person (one-off)")
            try:
                rid, nact = check_run(at, P, ps, pg_, (mk if pg_ is pg else (lambda pg_=pg_: at.ProgramInstructions(start_year=2001.0, alloc=pg_))), label, records, index, rid, V)
                cov["runs"].append(dict(label=label, active_steps=nact))
            except Exception as ex:
                V.violation("C13 run with programs raised %s" % type(ex).__name__, dict(label=label, error=str(ex)[:300]))
    bad, states = C.validate_batch(["Big", "ProgStepTrace"], "ProgStepTrace", records, ndjson=True, timeout=3000)
    cov["states"] += states
    cov["transitions"] += states
    cov["traces_validated_against_impl"] = len(records)
    for rid_, clause in bad:
        dd = index[rid_]
        V.violation("C13 %s %s" % (clause, dd.get("what", "units=%s" % dd.get("units"))), dict(clause=clause, **dd))
    cov["samples"] = [index[0], index[len(index) // 2]]
    return V, cov, time.time() - t0
