"""Regenerate MANIFEST.json from the table below (python -m harness.mkmanifest)."""
import json
import os

HERE = os.path.dirname(os.path.dirname(os.path.abspath(__file__)))

ENGINE_NOTE = ("Trusted base: TLC 1.8; the world generator/materialiser (harness/worlds.py) that turns one world into both the TLA+ constant and the "
               "atomica framework/databook; the run-time wrappers and float->limb encoder (harness/observe.py, fix.py), exercised by negative controls. "
               "Exhaustive only within the stated catalogue of structures, rational grids and depths (evidence lists them).")

CHECKS = {
    "C01": dict(tech="TLC exhaustive model checking of Engine.tla (R1 one step from every grid state, R2 multi-step with start-up flush) + replay of explored behaviours into Model + TLC trace validation (EngineTrace.tla clauses Balance, JunctionPass, Global) of replayed, random multi-step and library runs",
                text="Conservation (per-compartment balance, junction pass-through, global head count, flush conserves) is an invariant/action property of the engine specification, model-checked over every world x grid state x parameter vector of the catalogue; every explored transition is executed in the real Model and compared exactly; the same predicates are evaluated by TLC on the observed numbers of all recorded executions (multi-limb exact arithmetic, property tolerance 1e-9).",
                ref="DESIGN.md section 6 C01"),
    "C02": dict(tech="TLC exhaustive model checking of Engine.tla with extreme grids + replay + TLC trace validation (clauses NonNeg, Finite, NoOverdraw, Ratio, NegZero)",
                text="Non-negativity, no overdraw, ratio preservation under rescaling and zero flow for negative parameters are invariants of the engine specification checked on grids with rates >> 1/step, durations << dt, numbers >> stock, empty sources and negative function values; conformance by replay; observed runs judged by TLC with the same predicates; NaN/Inf have no representation in the trace encoding and fail clause Finite.",
                ref="DESIGN.md section 6 C02"),
    "C04": dict(tech="TLC exhaustive model checking of Engine.tla on junction worlds (single, chain, diamond, residual, inside duration groups; initial flush in R2) + replay + TLC trace validation (clauses JEmpty, JSplit, JunctionPass)",
                text="Junction emptiness, split by normalised proportions / residual rule and conservation of the initial flush are invariants of the specification over all proportion vectors of the grids (sum <1, =1, >1, some zero); every explored behaviour including the start-up flush is replayed into the real code; observed junction flows of replayed, random and library (tb) runs are judged by TLC.",
                ref="DESIGN.md section 6 C04"),
    "C05": dict(tech="TLC exhaustive model checking of Engine.tla on timed worlds (row count, shift register, group-level OnTime / Bound / NotEarly over recorded histories) + replay row by row + TLC trace validation (clauses Rows, ShiftRel, FlushAll)",
                text="Row count n = max(1, ceil(D/dt)), on-time release, occupancy bound and never-early release are invariants over multi-step behaviours with arbitrary inflow sequences chosen by TLC; every row of every timed compartment and duration-preserving link is compared with the real code at every index; the shift and flush relations are evaluated by TLC on observed rows.",
                ref="DESIGN.md section 6 C05"),
}
PURE_NOTE = ("Trusted base: TLC 1.8; the harness that materialises each enumerated case as real atomica objects and ships the returned floats exactly "
             "(limb encoding, harness/fix.py). Exhaustive only over the stated finite grids (evidence lists them); transcendental parts are covered by relational clauses only.")
CHECKS["C03"] = dict(tech="Engine.tla as the independent exact re-implementation: TLC exhaustive exploration + replay of every explored trajectory into Model (rtol 1e-9) + TLC trace validation of conversion/resolve relations (ConvertRel, ResolveRel) on replayed, random multi-step and library runs; TimeGrid.tla enumeration of (start,end,dt) + TLC validation of ProjectSettings.tvec",
                     text="The engine specification is written from the documentation in exact rational arithmetic; every compartment, flow and row trajectory it predicts is compared with the real code for every explored world, state and parameter vector; on library models TLC re-derives every flow from the logged parameter values and stocks via the multiplied-out documented relations; the time grid is enumerated over representable and non-representable steps that do and do not divide the span.",
                     ref="DESIGN.md section 6 C03")
CHECKS["C12"] = dict(tech="TLC exhaustive model checking of Covout.tla (weights on combinations: NonNegW, SumsToOne, Marginals, Convex, ZeroCov, Single, Monotone) + every enumerated case executed through Covout.get_outcome + TLC judgment of the returned values (CovoutTrace.tla: Expect, Convex, ZeroCov, Single, Marginal probes, Monotone pairs)",
                     text="The three coverage interactions are transcribed as a weight on every program combination; TLC proves on all grid cases (1-3 programs quick, 4 thorough) that the weights are a probability distribution with the coverages as marginals and the derived clauses; each case is then run in the real code and TLC compares the exact expected value and evaluates the property's clauses on the observed numbers, including marginals probed with indicator outcomes.",
                     ref="DESIGN.md section 6 C12", note=PURE_NOTE)
CHECKS["C11"] = dict(tech="TLC exhaustive model checking of Coverage.tla (Bounded, UpperOK, ConstraintOK, NobodyEligible, MonoSpend, MonoCost, MonoCov, DtIndependent, Precedence) + every case executed through ProgramSet.get_capacities / get_prop_coverage and Program.get_prop_covered + TLC judgment (CoverageTrace.tla: CapExpect, CovExpect, Bounded, Upper, Monotone pairs, DtIndependent pairs)",
                     text="Capacity and coverage are transcribed exactly for the unsaturated branch and relationally (bounds, limits) for the saturation curve; TLC checks the clauses of the property on every case of the grid (stepped spending series, one-off / continuous, constraints per year / absolute, saturation, eligible incl. 0, step sizes, all subsets of overwrites); each case is executed in the real code on both call paths (program set and the direct call the model makes) and TLC compares / bounds the observed values, including ordered pairs for monotonicity and step-independence.",
                     ref="DESIGN.md section 6 C11", note=PURE_NOTE)
CHECKS["C07"] = dict(tech="TLC enumeration of InitSolve.tla (initialisation structures x databook values x calibration factors; exact targets B, grid solvability) + every case run through Model construction + TLC judgment (InitSolveTrace.tla: DedicatedRefusal, NonNegative, MatchesDatabook, CharacSum, CharacRatio, CharacZeroRule, CharacInfinite)",
                     text="The least-squares solver is specified by its postcondition: accepted non-negative sizes must reproduce every initialization quantity (value x calibration factors, fractions x their scaled denominator) within 1e-6, otherwise only the dedicated refusal is allowed. TLC computes the exact targets for every case of seven inclusion structures (determined, nested, overlapping, under- and over-determined, fractions with used and unused denominators) and judges the observed outcome; reported characteristics (nested, ratios) are checked against their member sums at every time index of the accepted runs.",
                     ref="DESIGN.md section 6 C07", note=PURE_NOTE)
CHECKS["C14"] = dict(tech="TLC model checking of Alloc.tla (UnresolvableSound, WitnessOK over proposals x initial allocations x totals x budget factors x absolute/relative bounds, one and two constrained years) + every case driven through Optimization.get_hard_constraints / constrain_instructions + TLC judgment (AllocTrace.tla: DedicatedSignal, ReportedUpFront, Total, Bounds, Unchanged)",
                     text="SLSQP is specified by its postcondition (sum within 1e-6 relative, every bound met, or the dedicated rejection; a satisfying proposal unchanged; impossible constraints reported before anything is evaluated). TLC proves the feasibility theory on the specification (impossible <=> no allocation on the grid; otherwise an explicit witness) and judges the allocations the real code returns for every enumerated case.",
                     ref="DESIGN.md section 6 C14", note=PURE_NOTE)
CHECKS["C19"] = dict(tech="TLC enumeration of FuncParse.tla (every must-reject node kind in every argument position of every allowed node type to depth 3, two spellings; arithmetic trees with exact rational evaluation and dependency sets) + parse_function on every rendered string + TLC judgment (FuncParseTrace.tla: MustReject, MustAccept, NoSideEffect, Value, ArrayScalar, Deps)",
                     text="The classification accept / reject is a function of 'contains a must-reject node' (checked by TLC for monotonicity under every context); every enumerated tree is rendered and parsed in a scratch directory, and TLC compares the decision; accepted arithmetic strings are evaluated on scalars and arrays and compared with exact rational evaluation (safe division) and the exact dependency set.",
                     ref="DESIGN.md section 6 C19", note=PURE_NOTE)
CHECKS["C15"] = dict(tech="TLC model checking of OptLoop.tla (NoWorse, Restored, WorksOnCopies) under the failure-handling constant observed per entry point + fault enumeration: an exception injected at the k-th simulation for every k of a reference run of optimize / Project.run_optimization / Project.calibrate + TLC judgment of every real run (OptLoopTrace.tla: Restored, NoWorse on independently recomputed objective terms, InBounds, HardTargetKept)",
                     text="The control flow (copy inputs, shorten end year, initial evaluation, optimiser iterations that may crash or be rejected, keep best, restore, return) is a TLA+ state machine checked for all interleavings of crash / reject / improve; the harness observes on the real code whether each entry point restores on failure and model-checks the design with that constant; every crash point of reference runs is executed for several optimiser seeds and TLC compares digests of the caller's objects before / after and sums the documented objective terms recomputed from fresh simulations.",
                     ref="DESIGN.md section 6 C15", note="Trusted base: TLC; the structural digest walker (harness/digest.py); the ASD optimiser is driven with fixed random seeds, so 'any random path' is sampled (seeds listed in evidence), not enumerated.")
CHECKS["C17"] = dict(tech="TLC exhaustive model checking of Sampling.tla (Distinct, SourceUntouched over every assignment and order of S samples on W forked workers, any prior generator position, serial and parallel) with the reseed constant observed on the real pool initialiser + replay of the enumerated schedules with real forks + real pool / Ensemble runs + TLC judgment (SamplingTrace.tla: Distinct, SourceUntouched, ZeroSigma, Sampleable)",
                     text="Workers, streams and assignments are modelled explicitly; the harness probes what the real initialiser does to a forked generator, TLC checks distinctness for every schedule under that constant, and the schedules are re-executed with real os.fork children calling the real initialiser and sampler; recorded digests of sampled inputs / results (also from multiprocessing.Pool and sc.parallelize runs) are compared by TLC; sources are digested before and after; zero / absent uncertainty must reproduce the unsampled run; every library program book, with explicit interaction outcomes added, must be sampleable.",
                     ref="DESIGN.md section 6 C17", note="Trusted base: TLC; digest walker; the operating system's fork semantics. Pool scheduling of the real multiprocessing runs is whatever the day produces (recorded), the enumerated schedules are exact.")
CHECKS["C08"] = dict(tech="TLC exhaustive enumeration of Effects.tla histories (Frame, Functional over all sequences up to length 3 of run / run-with-programs / other-project / deepcopy / pickle / save-load / fresh-process operations on two projects) + execution of the histories on real projects + TLC validation of the digest trace (EffectsTrace.tla: Frame, Functional across histories and processes)",
                     text="Every API operation is an action with an explicit frame and an uninterpreted result function of the input contents; TLC enumerates the histories, the harness executes them on library and generated projects (incl. output-only function parameters without dependencies, multi-component characteristics, timed compartments), digests every input before and after every call and every result, also from fresh interpreters with different hash seeds, and TLC checks that the memo table inputs -> result stays single-valued and no input changed.",
                     ref="DESIGN.md section 6 C08", note="Trusted base: TLC; the structural digest walker (bitwise on arrays; metadata fields skipped); histories of length 3 are sampled in the quick tier (all in thorough).")
CHECKS["C10"] = dict(tech="TLC model checking of Engine.tla invariant C10_StartupNoop (the start-up sequence of a run is a no-op on an already flushed state, every R1 grid state and every R2 behaviour) + paired real runs (original vs restart at every sampled grid year, chains of two restarts, in memory and through the calibration spreadsheet) validated by TLC (PairTrace.tla)",
                     text="In the specification the continuation is a function of the saved state (rows included) because re-running parameters / initial flush / parameters / links on a flushed state changes nothing - checked by TLC on all engine worlds. On the real code every compartment row, flow row, characteristic and parameter of the restarted run is compared by TLC with the tail of the original (1e-12 relative when the two time grids coincide bitwise, 1e-9 otherwise and for the spreadsheet path), for generated worlds (junctions, timed groups, residual junctions, transfers, time-varying parameters) and library models with programs active before / after the restart year.",
                     ref="DESIGN.md section 6 C10", note=ENGINE_NOTE)
NOT_YET = {}


def main():
    props = [json.loads(l) for l in open(os.path.join(HERE, "properties.jsonl"))]
    checks = []
    na = []
    for p in props:
        pid = p["id"]
        if pid in CHECKS:
            c = CHECKS[pid]
            checks.append(dict(property_id=pid, quick_cmd="./check %s --tier quick" % pid, thorough_cmd="./check %s --tier thorough" % pid,
                               evidence_file="evidence/%s.json" % pid, replay_cmd_template="./check %s --replay {path}" % pid, engine="tla-engine" if pid in ("C01", "C02", "C03", "C04", "C05", "C10") else "tla-pure",
                               level_claimed=dict(category="model_checking", text=c["text"], design_ref=c["ref"]), level_note=c.get("note", ENGINE_NOTE), technique=c["tech"]))
        else:
            na.append(dict(property_id=pid, reason=NOT_YET.get(pid, "check under construction in this session: specification module and conformance harness not committed yet (the technique applies; see DESIGN.md section 6 %s)" % pid)))
    m = dict(version=1,
             setup_cmd="./setup.sh",
             hooks=dict(guard="ATOMICA_VERIF", enable="no source hooks: observation is by run-time wrappers installed by harness/observe.py (ATOMICA_VERIF=1 is exported by ./check for completeness)",
                        baseline_off_cmd="cd /repo && /venv/bin/python -m pytest -ra -q -p no:cacheprovider --timeout=900 --continue-on-collection-errors", source_commits=[], add_only=True),
             engines=[dict(name="tla-engine", path="spec/Engine.tla", serves_properties=["C01", "C02", "C03", "C04", "C05", "C10"], kind_free_text="explicit TLA+ specification of the integration loop, TLC exhaustive + replay + trace validation"),
                      dict(name="tla-pure", path="spec/", serves_properties=["C07", "C08", "C11", "C12", "C14", "C15", "C17", "C19"], kind_free_text="per-mechanism TLA+ modules (case enumeration + theorems checked by TLC) with a trace module that judges the values returned by the real code")],
             checks=checks, not_applicable=na,
             notes="Eleven genuine defects repaired in /repo with 'fix:' commits (see known_findings.json). Exit codes: 0 held, 1 violation, 2 machinery failure.")
    json.dump(m, open(os.path.join(HERE, "MANIFEST.json"), "w"), indent=1)
    print("checks", [c["property_id"] for c in checks], "not_applicable", len(na))


if __name__ == "__main__":
    main()
