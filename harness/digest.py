"""Deep structural digests (sha-256 over a canonical walk) of atomica objects: equal content <=> equal digest, irrespective of
metadata (names of copies, timestamps, uids, version stamps). Used for frame conditions and functional determinism."""
import datetime
import hashlib
import uuid

import numpy as np
import pandas as pd

SKIP = {"created", "modified", "uid", "version", "gitinfo", "_book", "_formats", "_references", "spreadsheet", "filename", "_verif_obs", "_fcn"}


def walk(o, h, seen, depth=0, skip=SKIP):
    if depth > 80:
        h.update(b"<deep>")
        return
    if o is None or isinstance(o, (bool, int, str)):
        h.update(repr((type(o).__name__, o)).encode())
        return
    if isinstance(o, float):
        h.update(b"f" + np.float64(o).tobytes())
        return
    if isinstance(o, (np.floating, np.integer, np.bool_)):
        h.update(b"n" + np.asarray(o, dtype=float).tobytes())
        return
    if isinstance(o, np.ndarray):
        h.update(b"a" + str(o.shape).encode() + str(o.dtype).encode())
        if o.dtype == object:
            for x in o.ravel():
                walk(x, h, seen, depth + 1, skip)
        else:
            h.update(np.ascontiguousarray(o).tobytes())
        return
    if isinstance(o, (datetime.datetime, datetime.date, uuid.UUID)):
        h.update(b"<meta>")
        return
    if isinstance(o, (pd.DataFrame, pd.Series)):
        h.update(b"df")
        walk(list(o.index), h, seen, depth + 1, skip)
        if isinstance(o, pd.DataFrame):
            walk(list(o.columns), h, seen, depth + 1, skip)
        walk(o.to_numpy(dtype=object), h, seen, depth + 1, skip)
        return
    if id(o) in seen:
        h.update(b"<cycle>")
        return
    if isinstance(o, dict):
        h.update(b"d" + type(o).__name__.encode())
        for k, v in o.items():
            walk(k, h, seen, depth + 1, skip)
            walk(v, h, seen, depth + 1, skip)
        return
    if isinstance(o, (list, tuple)):
        h.update(b"l" + type(o).__name__.encode() + str(len(o)).encode())
        for x in o:
            walk(x, h, seen, depth + 1, skip)
        return
    if isinstance(o, (set, frozenset)):
        h.update(b"s")
        for x in sorted(o, key=repr):
            walk(x, h, seen, depth + 1, skip)
        return
    if callable(o) and not hasattr(o, "__dict__"):
        h.update(b"<fn>")
        return
    seen = seen | {id(o)}
    h.update(b"o" + type(o).__name__.encode())
    if hasattr(o, "__slots__") and not hasattr(o, "__dict__"):
        for k in o.__slots__:
            h.update(k.encode())
            walk(getattr(o, k, None), h, seen, depth + 1, skip)
        return
    d = getattr(o, "__dict__", None)
    if d is None:
        h.update(repr(o).encode())
        return
    for k in sorted(d):
        if k in skip:
            continue
        h.update(k.encode())
        walk(d[k], h, seen, depth + 1, skip)


def dig(o, skip_names=True):
    """Digest of an object's content. skip_names: ignore the 'name' attribute of the top-level object (copies are renamed)."""
    h = hashlib.sha256()
    sk = SKIP
    if skip_names and hasattr(o, "__dict__") and "name" in o.__dict__:
        h.update(b"o" + type(o).__name__.encode())
        for k in sorted(o.__dict__):
            if k in sk or k == "name":
                continue
            h.update(k.encode())
            walk(o.__dict__[k], h, frozenset([id(o)]), 1, sk)
        return h.hexdigest()[:16]
    walk(o, h, frozenset())
    return h.hexdigest()[:16]


def result_digest(r):
    """Digest of every output array of a Result (compartments, characteristics, parameters, links), keyed structurally."""
    h = hashlib.sha256()
    h.update(np.ascontiguousarray(r.model.t).tobytes())
    for p in r.model.pops:
        for v in p.comps + p.characs + p.pars + p.links:
            if hasattr(v, "source"):
                key = (p.name, v.source.pop.name, v.source.name, v.dest.pop.name, v.dest.name, v.parameter.name if v.parameter is not None else None)
            else:
                key = (p.name, type(v).__name__, v.name)
            h.update(repr(key).encode())
            vals = v.vals
            if vals is not None:
                h.update(np.ascontiguousarray(np.asarray(vals, dtype=float)).tobytes())
            if getattr(v, "_vals", None) is not None and hasattr(v, "source") is False and type(v).__name__ == "TimedCompartment":
                h.update(np.ascontiguousarray(v._vals).tobytes())
        # the flows as a user asks for them: by the name of the parameter that drives them (a look-up table that copies have to rebuild)
        for par in p.pars:
            if getattr(par, "links", None):
                try:
                    ls = p.get_variable(par.name + ":flow")
                    tot = np.sum([np.asarray(l.vals, dtype=float) for l in ls], axis=0)
                    h.update(repr((p.name, par.name, "flow by name", len(ls))).encode())
                    h.update(np.ascontiguousarray(tot).tobytes())
                except Exception as ex:
                    h.update(repr((p.name, par.name, "flow by name", type(ex).__name__)).encode())
    return h.hexdigest()[:16]


def sampled_digest(ps):
    """Digest of the values of a (sampled) ParameterSet or ProgramSet: what a draw changed."""
    h = hashlib.sha256()
    if hasattr(ps, "all_pars"):
        for par in ps.all_pars():
            for k, ts in par.ts.items():
                h.update(repr((par.name, k, ts.assumption, list(ts.vals))).encode())
    else:
        for prog in ps.programs.values():
            for f in ("spend_data", "unit_cost", "capacity_constraint", "saturation", "coverage"):
                ts = getattr(prog, f)
                h.update(repr((prog.name, f, ts.assumption, list(ts.vals))).encode())
        for k, co in ps.covouts.items():
            h.update(repr((k, sorted(co.progs.items()), sorted((sorted(a), b) for a, b in co._interactions.items()))).encode())
    return h.hexdigest()[:16]
