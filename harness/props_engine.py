"""Checks C01-C05 (and the engine part of C03): Engine.tla explored by TLC, every explored behaviour replayed into the
real Model (spec -> code), every recorded execution validated by TLC against EngineTrace.tla (code -> spec)."""
import json
import os
import re
import shutil
import time
from concurrent.futures import ThreadPoolExecutor
from fractions import Fraction as Fr

import numpy as np

from . import common as C
from . import engine as E
from . import observe as O
from . import worlds as WD

FOCUS = {
    "C01": None,
    "C02": None,
    "C03": None,
    "C04": lambda w: any(c["kind"] in ("junction", "resjunction") for c in w["comps"]),
    "C05": lambda w: any(c["kind"] == "timed" for c in w["comps"]),
}
LIB_QUICK = [("udt", 8), ("tb_simple", 8), ("hiv", 6), ("combined", 6), ("tb", 3)]
LIB_THOROUGH = [("sir", 400), ("combined", 400), ("udt", 400), ("usdt", 400), ("udt_dyn", 400), ("tb_simple", 400), ("tb_simple_dyn", 400), ("hiv", 400), ("hiv_dyn", 400), ("hypertension", 400),
                ("hypertension_dyn", 400), ("diabetes", 400), ("cervicalcancer", 400), ("tb", 400)]


def parse_bad(out):
    """The final value of `bad` in a TLC error trace: list of (ti, clause, index)."""
    k = out.rfind("/\\ bad = ")
    if k < 0:
        return []
    seg = out[k:]
    end = seg.find("\n/\\", 3)
    seg = seg if end < 0 else seg[:end]
    return [(int(a), b, int(c)) for a, b, c in re.findall(r'<<(-?\d+), "(\w+)", (-?\d+)>>', seg)]


def validate_traces(paths, clauses, par=8, timeout=900):
    """Run EngineTrace on each NDJSON file with the given clauses. Returns list of (path, bad list, n_steps)."""
    def one(p):
        if os.environ.get("VERIF_NEGATIVE_CONTROL"):  # ./check selftest: corrupt observed fields of some step records of this trace
            lines = open(p).read().splitlines()
            recs = C.corrupt_one([json.loads(l) for l in lines[1:]], int(os.environ["VERIF_NEGATIVE_CONTROL"] or 1) + 2)
            with open(p, "w") as f:
                f.write(lines[0] + "\n" + "\n".join(json.dumps(r) for r in recs) + "\n")
        d = C.prepare_specdir(["Big", "EngineTrace"], {"T.cfg": O.trace_cfg(clauses)})
        r = C.run_tlc(d, "EngineTrace", cfg="T.cfg", workers=1, env={"TRACE_FILE": p}, xss="512m", timeout=timeout)
        shutil.rmtree(d, ignore_errors=True)
        bad = parse_bad(r.out) if "Verdict" in r.violated else []
        if "Verdict" not in r.violated:
            C.tlc_ok(r, "EngineTrace %s" % p)
            if r.postcondition_failed:
                raise C.MachineryError("trace %s not fully consumed:\n%s" % (p, r.out[-800:]))
        elif not bad:
            raise C.MachineryError("Verdict violated but no failing clause parsed:\n%s" % r.out[-1500:])
        return p, bad, r.distinct - 1

    with ThreadPoolExecutor(par) as ex:
        return list(ex.map(one, paths))


def write_world_traces(worlds, cases, results, outdir):
    """Group the observed steps of replayed cases by world into NDJSON files (one header, many steps).
    Returns {path: [(case index, step index)...]} so that a failing ti can be mapped back."""
    by = {}
    for idx, ((wid, case), res) in enumerate(zip(cases, results)):
        if res.get("trace"):
            by.setdefault(wid, []).append((idx, res["trace"]))
    files = {}
    os.makedirs(outdir, exist_ok=True)
    for wid, lst in by.items():
        path = os.path.join(outdir, "replay_%s.ndjson" % wid)
        index = []
        with open(path, "w") as f:
            f.write(lst[0][1][0] + "\n")
            n = 0
            for idx, lines in lst:
                for j, line in enumerate(lines[1:]):
                    ev = json.loads(line)
                    ev["ti"] = n  # unique id within the file
                    ev["first"] = j == 0
                    f.write(json.dumps(ev) + "\n")
                    index.append((idx, j))
                    n += 1
        files[path] = index
    return files


def random_runs(worlds, n_per_world, K, rng):
    """Regime T inputs: multi-step runs with parameter values drawn per step from the aggressive grids and random
    float perturbations (values the rational grid never contains); returned as replay-style pseudo cases (no expectation)."""
    cases = []
    for w in worlds:
        for _ in range(n_per_world):
            st = [w["grid"][c["name"]][rng.integers(len(w["grid"][c["name"]]))] for c in w["comps"]]
            hist = []
            for k in range(K):
                while True:
                    pv = []
                    for p in w["pars"]:
                        v = p["dom"][rng.integers(len(p["dom"]))]
                        pv.append(v)
                    # C01's domain restriction: a plain junction that may receive people needs a positive sum of proportions (the free runs
                    # have no expectation to tell an idle junction from an ill-posed one, so they avoid the all-zero vectors altogether)
                    names = [p["name"] for p in w["pars"]]
                    bad = False
                    for c in w["comps"]:
                        if c["kind"] == "junction":
                            outs = [l for l in w["links"] if l["src"] == c["name"] and l["par"] in names]
                            if outs and all(pv[names.index(l["par"])] <= 0 for l in outs):
                                bad = True
                    if not bad:
                        break
                if k > 0:
                    for i, p in enumerate(w["pars"]):
                        if p["timed"]:
                            pv[i] = hist[0]["pvf"][i]
                hist.append(dict(pvf=pv))
            # every third run in per-capita units: stocks (and number parameters) scaled to 1e-8 .. 1e-6 people, where a guard that treats
            # "small" as "zero" would lose people that the property's absolute tolerance (1e-9) still counts
            scale = 2.0 ** -28 if len(cases) % 3 == 2 else 1.0
            cases.append((w["id"], dict(free=True, st=st, hist=hist, jitter=float(rng.uniform(0.5, 1.5)), scale=scale)))
    return cases


def free_run(args):
    """Execute a free (no expected values) multi-step run and return its trace lines."""
    wid, case = args
    import atomica as at

    w = E._WORLDS[wid]
    K = len(case["hist"])
    dt = float(w["dt"])
    S = at.ProjectSettings(sim_start=2000, sim_end=2000 + K * dt, sim_dt=dt)
    jit = case["jitter"]
    scale = case.get("scale", 1.0)
    pv = [[(Fr(x) if p["timed"] or p["units"] == "proportion" else Fr(float(x) * jit * (scale if p["units"] == "number" else 1.0))) for x, p in zip(h["pvf"], w["pars"])] for h in case["hist"]]
    Fw, ps = WD.build_parset(w, pv, S.tvec)
    WD.set_state(w, ps, [[Fr(float(x) * jit * scale) for x in rows] for rows in case["st"]])
    pg, ins = WD.build_programs(w, ps, pv, S.tvec)
    try:
        with O.LinkObserver():
            r = at.run_model(S, Fw, ps, pg, ins)
    except ValueError as ex:
        if "broadcast" in str(ex):  # row count differs from the specification's: reported by the replay of the same world
            return dict(trace=None, mism=[("rows",)], skipped=None)
        raise
    path = os.path.join(C.scratch(), "free_%d_%s.ndjson" % (os.getpid(), wid))
    O.record_run(r.model, path, wid=wid, world=w)
    lines = open(path).read().splitlines()
    os.remove(path)
    return dict(trace=lines, mism=[], skipped=None)


def two_type_project(at):
    """A generated project with two population types, each with a residual junction (the '>' links of both types sit in one list of the
    framework): structure none of the repository's fixtures has."""
    import io

    import sciris as sc
    import xlsxwriter

    f = io.BytesIO()
    wb = xlsxwriter.Workbook(f)
    wb.set_properties({"category": "atomica:framework"})

    def sheet(name, rows):
        ws = wb.add_worksheet(name)
        for i, r in enumerate(rows):
            for j, c in enumerate(r):
                if c is not None:
                    ws.write(i, j, c)

    sheet("Population types", [["Code name", "Description"], ["hum", "Humans"], ["vec", "Vectors"]])
    sheet("Databook Pages", [["Datasheet Code Name", "Datasheet Title"], ["sv", "State"], ["pa", "Pars"]])
    comps = [["Code Name", "Display Name", "Is Source", "Is Sink", "Is Junction", "Setup Weight", "Default Value", "Databook Page", "Population type"]]
    for tp in ("h", "v"):
        t = "hum" if tp == "h" else "vec"
        comps += [[tp + "s", "C " + tp + "s", "n", "n", "n", 1, 0, "sv", t], [tp + "j", "C " + tp + "j", "n", "n", "y", 0, None, None, t],
                  [tp + "a", "C " + tp + "a", "n", "n", "n", 1, 0, "sv", t], [tp + "b", "C " + tp + "b", "n", "n", "n", 1, 0, "sv", t]]
    sheet("Compartments", comps)
    rows = []
    for tp in ("h", "v"):
        names = [tp + x for x in "sjab"]
        M = {a: {b: None for b in names} for a in names}
        M[tp + "s"][tp + "j"] = tp + "go"
        M[tp + "j"][tp + "a"] = tp + "q"
        M[tp + "j"][tp + "b"] = ">"
        M[tp + "a"][tp + "s"] = tp + "back"
        M[tp + "b"][tp + "s"] = tp + "back"
        rows += [["hum" if tp == "h" else "vec"] + names] + [[a] + [M[a][b] for b in names] for a in names] + [[]]
    sheet("Transitions", rows)
    sheet("Characteristics", [["Code Name", "Display Name", "Components", "Denominator", "Default Value", "Setup Weight", "Databook Page", "Population type"],
                              ["halive", "Ch h", "hs, ha, hb", None, 0, 0, None, "hum"], ["valive", "Ch v", "vs, va, vb", None, 0, 0, None, "vec"]])
    pars = [["Code Name", "Display Name", "Format", "Timescale", "Default Value", "Minimum Value", "Maximum Value", "Function", "Databook Page", "Population type"]]
    for tp in ("h", "v"):
        t = "hum" if tp == "h" else "vec"
        pars += [[tp + "go", "P " + tp + "go", "rate", 1, 0.8 if tp == "h" else 1.6, 0, None, None, "pa", t], [tp + "q", "P " + tp + "q", "proportion", None, 0.3 if tp == "h" else 0.45, 0, None, None, "pa", t],
                 [tp + "back", "P " + tp + "back", "probability", 1, 0.2, 0, None, None, "pa", t]]
    sheet("Parameters", pars)
    sheet("Cascades", [["Cascade", "Constituents"], ["All", "halive"], ["A", "ha"]])
    wb.close()
    Fw = at.ProjectFramework(sc.Spreadsheet(f))
    pops = sc.odict([("h1", {"label": "Humans 1", "type": "hum"}), ("v1", {"label": "Vectors 1", "type": "vec"}), ("v2", {"label": "Vectors 2", "type": "vec"})])
    D = at.ProjectData.new(Fw, np.array([2018.0]), pops=pops, transfers=0)
    for name, val in (("hs", 640.0), ("ha", 64.0), ("hb", 0.0), ("vs", 5120.0), ("va", 0.0), ("vb", 128.0)):
        for ts in D.tdve[name].ts.values():
            ts.insert(2018.0, val)
    P = at.Project(framework=Fw, databook=D.to_spreadsheet(), do_run=False)
    P.settings.update_time_vector(start=2018, end=2021, dt=0.25)
    return P


def fixture_projects(at):
    """Foreign executions with timed compartments and junctions: the repository's own test fixtures (and sir_vaccine), driven the
    way the tests drive them. Fixtures that do not load are skipped (and listed in the evidence)."""
    import sciris as sc

    T = os.path.join(C.REPO, "tests")
    out, skipped = [], []
    pairs = [("timed_test", "timed_test_framework.xlsx", "timed_test_databook.xlsx"), ("timed_tb", "timed_tb_framework.xlsx", "timed_tb_databook.xlsx"),
             ("timed_transfer", "timed_test_transfer_framework.xlsx", "timed_test_transfer_databook.xlsx"), ("timed_transfer_2", "timed_test_transfer_framework.xlsx", "timed_test_transfer_databook_2.xlsx"),
             ("timed_transfer_3", "timed_test_transfer_framework.xlsx", "timed_test_transfer_databook_3.xlsx")]
    for name, fw, db in pairs:
        try:
            out.append((name, at.Project(framework=os.path.join(T, fw), databook=os.path.join(T, db), do_run=False)))
        except Exception as ex:
            skipped.append((name, type(ex).__name__))
    for name, fw in [("timed_indirect", "timed_test_indirect_framework.xlsx"), ("timed_indirect2", "timed_test_indirect2_framework.xlsx"), ("timed_eligibility", "timed_test_eligibility_framework.xlsx"),
                     ("junction", "framework_junction_test.xlsx"), ("junction_remainder", "framework_junction_remainder_test.xlsx"), ("junction_remainder_2", "framework_junction_remainder_test_2.xlsx"),
                     ("junction_feed_forward", "framework_junction_feed_forward_test.xlsx"), ("junction_feed_forward_timed", "framework_junction_feed_forward_timed_test.xlsx"),
                     ("junction_timed_remainder", "framework_junction_timed_remainder_test.xlsx"), ("only_junctions", "test_only_junctions_framework.xlsx")]:
        try:
            Fw = at.ProjectFramework(os.path.join(T, fw))
            D = at.ProjectData.new(Fw, np.array([2018.0]), pops=1, transfers=0)
            P = at.Project(framework=Fw, databook=D.to_spreadsheet(), do_run=False)
            P.settings.update_time_vector(start=2018, end=2021, dt=1 / 12 if "timed" in name else 0.25)
            out.append((name, P))
        except Exception as ex:
            skipped.append((name, type(ex).__name__))
    try:
        out.append(("two_types_residual", two_type_project(at)))
    except Exception as ex:
        skipped.append(("two_types_residual", type(ex).__name__ + ": " + str(ex)[:80]))
    try:
        out.append(("sir_vaccine", at.Project(framework=os.path.join(str(at.LIBRARY_PATH), "sir_vaccine_framework.xlsx"), databook=os.path.join(str(at.LIBRARY_PATH), "sir_vaccine_databook.xlsx"), do_run=False)))
    except Exception as ex:
        skipped.append(("sir_vaccine", type(ex).__name__))
    return out, skipped


FIXTURES_SKIPPED = []


QUICK_FIXTURES = {"two_types_residual", "timed_test", "timed_transfer_2", "junction_remainder", "junction_feed_forward_timed", "junction_timed_remainder", "sir_vaccine"}


def fixture_traces(outdir, nsteps, only=None):
    at = C.quiet_atomica()
    projs, skipped = fixture_projects(at)
    if only:
        projs = [(n, P) for n, P in projs if n in only]
    FIXTURES_SKIPPED[:] = skipped
    paths = []
    for name, P in projs:
        try:
            with O.LinkObserver():
                r = P.run_sim(P.parsets[0], store_results=False)
        except Exception as ex:
            FIXTURES_SKIPPED.append((name, "run: " + type(ex).__name__))
            continue
        T = len(r.model.t) - 1
        steps = sorted(set(list(range(min(nsteps, T))) + [T - 2, T - 1]))
        p = os.path.join(outdir, "fix_%s.ndjson" % name)
        O.record_run(r.model, p, wid="fixture:" + name, steps=[k for k in steps if k >= 0])
        paths.append(p)
    return paths


def dbinit_traces(outdir):
    """Timed worlds started from databook totals (no injected state): the first step is recorded together with the databook total of every
    timed compartment, for the clause InitSpread (the initial occupants are spread uniformly over the duration)."""
    import numpy as np

    at = C.quiet_atomica()
    cat = {w["id"]: w for w in WD.catalogue("quick")}
    paths = []
    for wid, vals in (("tfrac", {"a": 100, "v": 60, "d": 0}), ("tlong", {"a": 10, "v": 50, "d": 0}), ("tgroup", {"a": 20, "v": 30, "w": 7, "d": 0})):
        w = cat[wid]
        dt = float(w["dt"])
        S = at.ProjectSettings(2000, 2000 + 2 * dt, dt)
        pv = [[(Fr(0) if p["units"] != "duration" and not p["timed"] else p["dom"][0]) for p in w["pars"]] for _ in range(2)]
        Fw, ps = WD.build_parset(w, pv, S.tvec)
        for c in w["comps"]:
            if c["kind"] in ("source", "sink"):
                continue
            ts = ps.pars[c["base"]].ts[c["pop"]]
            ts.t, ts.vals, ts.assumption = [], [], float(vals[c["base"]])
        with O.LinkObserver():
            r = at.run_model(S, Fw, ps)
        p = os.path.join(outdir, "lib_dbinit_%s.ndjson" % wid)
        O.record_run(r.model, p, wid="dbinit:" + wid, steps=[0], world=w, dbtot=[(float(vals[c["base"]]) if c["kind"] == "timed" else None) for c in w["comps"]])
        paths.append(p)
    return paths


def library_traces(models, outdir):
    at = C.quiet_atomica()
    paths = []
    for name, nsteps in models:
        with O.LinkObserver():
            P = at.demo(name, do_run=False)
            r = P.run_sim(P.parsets[0])
            T = len(r.model.t) - 1
            steps = list(range(min(nsteps, T)))
            if nsteps < T:  # always include the last steps of the run
                steps += [T - 2, T - 1]
            p = os.path.join(outdir, "lib_%s.ndjson" % name)
            O.record_run(r.model, p, wid=name, steps=sorted(set(steps)))
            paths.append(p)
            if P.progsets and name in ("udt", "tb_simple", "hiv", "tb", "usdt", "hypertension"):
                ins = at.ProgramInstructions(start_year=float(r.model.t[2]), alloc=P.progsets[0])
                r2 = P.run_sim(P.parsets[0], P.progsets[0], ins)
                p = os.path.join(outdir, "lib_%s_prog.ndjson" % name)
                O.record_run(r2.model, p, wid=name + "+prog", steps=sorted(set(steps)))
                paths.append(p)
    return paths


def run(prop, tier):
    t0 = time.time()
    rng = np.random.default_rng(C.seed())
    V = C.Verdict(prop)
    thorough = tier == "thorough"
    focus = FOCUS[prop]
    W1 = [w for w in WD.catalogue(tier, "r1") if focus is None or focus(w)]
    W2 = [w for w in WD.catalogue_r2(tier) if focus is None or focus(w)]
    inv1 = E.R1_INV.get(prop, []) + (["C05_Rows", "C06_InLimits"] if prop == "C03" else [])
    prop1 = E.R1_PROP.get(prop, [])
    inv2 = E.R2_INV.get(prop, [])
    prop2 = E.R2_PROP.get(prop, [])
    clauses = O.CLAUSES[prop]
    cov = dict(states=0, transitions=0, traces_validated_against_impl=0, samples=[], worlds_r1=[w["id"] for w in W1], worlds_r2=[w["id"] for w in W2])

    # ---- P_spec: exhaustive model checking of the design (R1 one step from every grid state; R2 multi-step with start-up)
    r1 = E.explore(W1, "r1", 1, inv1, prop1)
    r2 = E.explore_r2(W2, 40000 if thorough else 2500, inv2, prop2)
    # step-size variants of the catalogue worlds (thorough tier) that still overflow 32-bit rationals are left out, by name, not failed on
    dropped = [wid for wid in r1["overflow"] if "_dt" in wid]
    if dropped:
        r1["overflow"] = [wid for wid in r1["overflow"] if wid not in dropped]
        r1["cases"] = [(wid, c) for wid, c in r1["cases"] if wid not in dropped]
        W1 = [w for w in W1 if w["id"] not in dropped]
        cov["step_size_variants_left_out_overflow"] = dropped
    for r in (r1, r2):
        cov["states"] += r["states"]
        cov["transitions"] += r["transitions"]
        if r["overflow"]:
            raise C.MachineryError("32-bit overflow in worlds %s" % r["overflow"])
        if r["violated"]:
            wid, name, out = r["violated"][0]
            raise C.MachineryError("specification property %s refuted in world %s (design/spec problem, not an implementation verdict):\n%s" % (name, wid, out[-2500:]))
    cov["r1_cases"] = len(r1["cases"])
    cov["r2_behaviours"] = len(r2["cases"])
    cov["exhaustive"] = True
    cov["per_world"] = {**r1["per_world"], **r2["per_world"]}

    # ---- direction A: replay into the real code, exact rationals vs floats; observed steps recorded for direction B
    n1 = len(r1["cases"]) if thorough else 2400
    n2 = len(r2["cases"]) if thorough else 1200
    sel = E.stratified(r1["cases"], n1, rng) + E.stratified(r2["cases"], n2, rng)
    W3 = WD.catalogue_traceonly(tier) if prop in ("C05", "C03") else []
    cov["worlds_trace_only"] = [w["id"] for w in W3]
    allw = W1 + W2 + W3
    E._WORLDS_ALL = {w["id"]: w for w in allw}
    res = E.replay(allw, sel, want_obs=True)
    mismatching = [(c, o) for c, o in zip(sel, res) if o["mism"]]
    cov["replayed"] = len(sel)
    cov["replay_mismatches"] = len(mismatching)
    cov["replay_skipped_illposed"] = sum(1 for o in res if o["skipped"])
    for (wid, case), o in mismatching[:200]:
        kind = o["mism"][0][0]
        flushcase = kind == "stock" and o["mism"][0][1] == 0 and any(float(Fr(*rows[0])) > 0 for c, rows in zip(E._WORLDS_ALL[wid]["comps"], case.get("init", [])) if c["kind"] in ("junction", "resjunction"))
        if prop == "C03" or (prop == "C05" and kind == "rows") or (prop == "C04" and flushcase):
            V.violation("%s replay %s world=%s" % (prop, "initial-flush" if (prop == "C04" and flushcase) else kind, wid.split("_dt")[0]), dict(world=wid, case=case, mismatch=o["mism"]))
        else:
            V.note_drift("replay mismatch (%s) in world %s does not by itself falsify %s; judged by the trace clauses" % (kind, wid, prop))

    # ---- direction B: TLC validates every recorded execution against the property's clauses
    tdir = os.path.join(C.scratch(), "traces")
    os.makedirs(tdir, exist_ok=True)
    files = write_world_traces(allw, sel, res, tdir)
    free = random_runs(W1, 40 if thorough else 6, 6 if thorough else 4, rng)
    free += random_runs(W3, 2, 3, rng)
    fres = E.pool_map(allw, free_run, free)
    ffiles = write_world_traces(allw, free, fres, os.path.join(tdir, "free"))
    for (wid, case), o in zip(free, fres):
        if o["mism"] and prop in ("C05", "C03") and wid in {w["id"] for w in W3}:
            # the model allocated a different number of elapsed-time bins than n = ceil(D/dt) (the initial rows no longer fit)
            w_ = E._WORLDS_ALL[wid]
            V.violation("%s replay rows world=%s" % (prop, wid), dict(source="free multi-step run", world=wid, dt=str(w_["dt"]), expected_rows={c["name"]: c["rows"] for c in w_["comps"] if c["rows"] > 1}))
    lib = library_traces(LIB_THOROUGH if thorough else LIB_QUICK, tdir) if prop in ("C01", "C02", "C03", "C04") else []
    lib += fixture_traces(tdir, 400 if thorough else 8, only=None if thorough else QUICK_FIXTURES)
    if prop == "C05":
        lib += dbinit_traces(tdir)
    paths = list(files) + list(ffiles) + lib
    out = validate_traces(paths, clauses)
    nsteps = 0
    for p, bad, n in out:
        nsteps += n
        for ti, clause, idx in bad[:5]:
            if p in files:
                ci, sj = files[p][ti]
                wid, case = sel[ci]
                detail = dict(source="replayed specification behaviour", world=wid, case=case, step=sj, clause=clause, index=idx)
            elif p in ffiles:
                ci, sj = ffiles[p][ti]
                wid, case = free[ci]
                detail = dict(source="free multi-step run", world=wid, case=json.loads(json.dumps(case, default=str)), step=sj, clause=clause, index=idx)
            else:
                wid = os.path.basename(p)[4:-7]
                detail = dict(source="library model / test fixture", model=wid, ti=ti, clause=clause, index=idx)
            V.violation("%s %s world=%s" % (prop, clause, wid.split("_dt")[0]), detail)
    cov["traces_validated_against_impl"] = len(paths)
    cov["trace_steps_validated"] = nsteps
    cov["trace_clauses"] = clauses
    cov["library_traces"] = [os.path.basename(p) for p in lib]
    cov["fixtures_skipped"] = [list(x) for x in FIXTURES_SKIPPED]
    if sel:
        wid, case = sel[0]
        cov["samples"].append(dict(kind="replayed behaviour", world=wid, case=case))
    return V, cov, time.time() - t0
