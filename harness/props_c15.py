"""C15: optimisation / calibration never worse, no side effects, for every crash point (spec/OptLoop.tla)."""
import os
import time

import numpy as np

from . import common as C
from . import digest as DG
from . import fix as FX


class Injected(Exception):
    pass


class Counter:
    """Counts Model.process calls and raises Injected at the crash_at-th."""

    def __init__(self):
        import atomica.model as M

        self.M = M
        self.n = 0
        self.crash_at = None
        self.orig = M.Model.process
        me = self

        def wrapped(model):
            me.n += 1
            if me.crash_at is not None and me.n == me.crash_at:
                raise Injected("injected failure at simulation %d" % me.n)
            return me.orig(model)

        M.Model.process = wrapped

    def close(self):
        self.M.Model.process = self.orig


def caller_digest(P, ps, pg, ins):
    return "|".join([DG.dig(ps), DG.dig(pg) if pg is not None else "-", DG.dig(ins) if ins is not None else "-", DG.dig(P.settings), repr(float(P.settings.sim_end)), DG.dig(P.data)])


def objective_terms(at, P, ps, pg, ins, measurables):
    """Documented objective, independently: weight x sum over populations and over t in [t0,t1) (or t == t0) of the output; flows annualised."""
    from atomica.model import Link

    r = at.run_model(P.settings, P.framework, ps, pg, ins)
    terms = []
    for (name, t, pops, weight) in measurables:
        tt = np.atleast_1d(np.array(t, dtype=float))
        mask = (r.model.t == tt[0]) if len(tt) == 1 else ((r.model.t >= tt[0]) & (r.model.t < tt[1]))
        if pg is not None and name in pg.programs:  # spending on a program: the amounts in force at the output times (reported by the result, not recomputed)
            terms += [float(weight * x) for x in np.asarray(r.get_alloc()[name], dtype=float)[mask]]
            continue
        for pop in r.model.pops:
            if pops and pop.name not in ([pops] if isinstance(pops, str) else list(pops)):  # a single name selects that population, nothing else
                continue
            try:
                vs = pop.get_variable(name)
            except Exception:
                continue
            for v in vs:
                vals = v.vals[mask] / v.dt if isinstance(v, Link) else v.vals[mask]
                terms += [float(weight * x) for x in vals]
    return terms


def budget_problem(at, model="udt", pops=None, single_year=False, seed=1, maxiters=5, upper=3.0, dt=None, two_years=False):
    from atomica.optimization import SpendingAdjustment, TotalSpendConstraint, Optimization, MaximizeMeasurable, MinimizeMeasurable

    P = at.demo(model, do_run=False)
    ps, pg = P.parsets[0], P.progsets[0]
    start = 2018.0
    P.settings.update_time_vector(end=2025.0, dt=dt)
    progs = [p for p in pg.programs.values() if p.spend_data.has_data and float(p.spend_data.interpolate(start, method="previous")[0]) > 0][:3]
    ins = at.ProgramInstructions(start_year=start, alloc=pg)
    years = [start]
    if two_years:  # spending is adjusted in two years in which the caller's instructions differ (no explicit initial values: they are read from the instructions)
        years = [start, start + 2.0]
        for p in progs:
            ins.alloc[p.name].insert(start + 2.0, 2.0 * float(ins.alloc[p.name].get(start)))
    adjs = [at.SpendingAdjustment(p.name, years if two_years else start, "rel", 0.25, upper) for p in progs]
    comp = [c for c in P.framework.comps.index if P.framework.comps.at[c, "is sink"] != "y" and P.framework.comps.at[c, "is source"] != "y" and P.framework.comps.at[c, "is junction"] != "y"][-1]
    t = [2020.0] if single_year else [2018.0, 2021.0]
    meas = MaximizeMeasurable(comp, t, pop_names=pops)
    opt = Optimization(name="o", adjustments=adjs, measurables=meas, constraints=TotalSpendConstraint(), maxiters=maxiters, method="asd")
    measurables = [(comp, t, pops, -1.0)]
    opt._verif_years = years
    return P, ps, pg, ins, opt, measurables, [p.name for p in progs], start


def run_budget(at, cnt, prob, seed, crash_at=None, via_project=False):
    from atomica.optimization import optimize
    from atomica.utils import NamedItem

    P, ps, pg, ins, opt, measurables, prognames, start = prob
    before = caller_digest(P, ps, pg, ins)
    cnt.n = 0
    cnt.crash_at = crash_at
    outcome, ret = "returned", None
    try:
        if via_project:
            class OI(NamedItem):
                def __init__(self):
                    NamedItem.__init__(self, "oi")
                    self.json = {"end_year": 2023.0, "optim_type": "outcome"}

                def make(self, project):
                    return opt, ins

            opt.parsetname, opt.progsetname = ps.name, pg.name
            if "oi" not in P.optims:
                P.optims.append(OI())
            res = P.run_optimization("oi", maxiters=opt.maxiters, store_results=False)
            ret = res[1].model.program_instructions
        else:
            ret = optimize(P, opt, ps, pg, ins, optim_args={"randseed": seed})
    except Injected:
        outcome = "aborted"
    finally:
        cnt.crash_at = None
    after = caller_digest(P, ps, pg, ins)
    return outcome, ret, before, after, cnt.n


def library_objective(at, P, ps, pg, ins0, opt, ins):
    """The objective the library computes for instructions `ins` (baselines from the original instructions ins0)."""
    import pickle

    m0 = at.Model(P.settings, P.framework, ps, pg, ins0)
    baselines = opt.get_baselines(pickle.dumps(m0))
    m = at.Model(P.settings, P.framework, ps, pg, ins)
    m.process()
    return float(opt.compute_objective(m, baselines))


def output_sum(at, P, ps, pg, ins, name, t, pops=None):
    return float(sum(objective_terms(at, P, ps, pg, ins, [(name, t, pops, 1.0)])))


def hard_target_problems(at, thorough):
    """Money minimisation subject to one hard target, started from a scaled-up allocation that meets it. Yields
    (label, P, ps, pg, ins0, opt, x0, measurables for the finite objective, judge(ins) -> met?)."""
    import sciris as sc
    from atomica.optimization import SpendingAdjustment, Optimization, MinimizeMeasurable, AtLeastMeasurable, AtMostMeasurable, IncreaseByMeasurable, DecreaseByMeasurable

    for model in ["udt", "hiv"]:
        P = at.demo(model, do_run=False)
        ps, pg = P.parsets[0], P.progsets[0]
        start = 2018.0
        P.settings.update_time_vector(end=2024.0)
        progs = [p for p in pg.programs.values() if p.spend_data.has_data and float(p.spend_data.interpolate(start, method="previous")[0]) > 0][:2]
        names = [p.name for p in progs]
        ins0 = at.ProgramInstructions(start_year=start, alloc=pg)
        base_spend = [float(ins0.alloc[n].get(start)) for n in names]
        x0 = [1.5 * v for v in base_spend]

        def with_spend(factor):
            i = sc.dcp(ins0)
            for n, v in zip(names, base_spend):
                i.alloc[n].insert(start, v * factor)
            return i

        comps = [c for c in P.framework.comps.index if P.framework.comps.at[c, "is sink"] != "y" and P.framework.comps.at[c, "is source"] != "y" and P.framework.comps.at[c, "is junction"] != "y"]
        allpops = list(ps.pop_names)
        # (hiv has two populations: there the targets carry a population selection and are judged over that population only)
        sel = [allpops[0]] if len(allpops) > 1 else None
        for t in ([2021.0], [2019.0, 2022.0]) if (thorough or sel is None) else ([2021.0],):
            done = set()
            for comp in comps:
                vb = output_sum(at, P, ps, pg, ins0, comp, t, sel)
                v0 = output_sum(at, P, ps, pg, with_spend(1.5), comp, t, sel)
                vl = output_sum(at, P, ps, pg, with_spend(0.25), comp, t, sel)
                if not (abs(v0 - vl) > 1e-6 * max(1.0, abs(v0)) and abs(v0 - vb) > 1e-6 * max(1.0, abs(v0))):
                    continue  # spending does not move this output
                up = v0 > vl
                if up in done:
                    continue
                done.add(up)
                if up:
                    targets = [("at least", AtLeastMeasurable(comp, t, (v0 + vl) / 2, pop_names=sel), lambda v, th=(v0 + vl) / 2: v >= th),
                               ("increase by (abs)", IncreaseByMeasurable(comp, t, (v0 - vb) / 2, pop_names=sel, target_type="abs"), lambda v, th=vb + (v0 - vb) / 2: v >= th),
                               ("increase by (frac)", IncreaseByMeasurable(comp, t, (v0 - vb) / (2 * vb), pop_names=sel), lambda v, th=vb * (1 + (v0 - vb) / (2 * vb)): v >= th * (1 - 1e-12))]
                else:
                    targets = [("at most", AtMostMeasurable(comp, t, (v0 + vl) / 2, pop_names=sel), lambda v, th=(v0 + vl) / 2: v <= th),
                               ("decrease by (abs)", DecreaseByMeasurable(comp, t, (vb - v0) / 2, pop_names=sel, target_type="abs"), lambda v, th=vb - (vb - v0) / 2: v <= th),
                               ("decrease by (frac)", DecreaseByMeasurable(comp, t, (vb - v0) / (2 * vb), pop_names=sel), lambda v, th=vb * (1 - (vb - v0) / (2 * vb)): v <= th * (1 + 1e-12))]
                for tname, hard, met in targets:
                    adjs = [SpendingAdjustment(n, start, "rel", 0.25, 3.0) for n in names]
                    meas = [MinimizeMeasurable(n, [start, start + 1.0]) for n in names] + [hard]
                    opt = Optimization(name="o", adjustments=adjs, measurables=meas, maxiters=12 if thorough else 8, method="asd")
                    finite = [(n, [start, start + 1.0], None, 1.0) for n in names]
                    judge = lambda ins, comp=comp, t=t, met=met, sel=sel: bool(met(output_sum(at, P, ps, pg, ins, comp, t, sel)))
                    yield dict(model=model, target=tname, output=comp, t=t, pops=sel), P, ps, pg, ins0, opt, x0, names, start, finite, judge


def calib_problem(at, model="udt", dt=None, late_start=False):
    """A calibration problem that is not already solved at the start: the library databooks mostly hold first-year data (which the
    initialisation reproduces), so two later data points, a few percent off the uncalibrated model, are added to every target."""
    P = at.demo(model, do_run=False)
    if dt is not None:
        P.settings.update_time_vector(dt=dt)
    ps = P.parsets[0]
    pops = list(ps.pop_names)
    pars = [p for p in P.framework.pars.index if P.framework.pars.at[p, "format"] in ("probability", "rate", "number") and p in ps.pars and P.framework.transitions.get(p)][:2]
    targets = [c for c in list(P.framework.characs.index) + list(P.framework.comps.index) if P.data.get_ts(c, pops[0]) is not None and P.data.get_ts(c, pops[0]).has_data][:2]
    adjustables = [(p, pop, 0.5, 1.5) for p in pars for pop in pops]
    measurables = [(c, pop, 1.0, "fractional") for c in targets for pop in pops]
    res = P.run_sim(parset=ps, store_results=False)
    t0 = float(P.settings.sim_start)
    for i, (var, pop, _, _) in enumerate(measurables):
        out = res.model.get_pop(pop).get_variable(var)[0]
        ts = P.data.tdve[var].ts[pop]
        for year, factor in ((t0 + 1.0, 1.25), (t0 + 3.0, 1.04 - 0.03 * i), (t0 + 4.0, 0.97 + 0.02 * i)) if late_start else ((t0 + 3.0, 1.04 - 0.03 * i), (t0 + 4.0, 0.97 + 0.02 * i)):
            ts.insert(year, float(np.interp(year, out.t, out.vals)) * factor)
    if late_start:  # the simulated period starts after the first data year: data outside the simulated period is not part of the objective
        P.settings.update_time_vector(start=t0 + 2.0)
    return P, ps, adjustables, measurables


def library_calib_objective(P, ps, adjustables, measurables):
    """The objective the library's calibration evaluates for parameter set ps."""
    import sciris as sc
    from atomica.calibration import _calculate_objective

    y = [float(ps.pars[a[0]].y_factor[a[1]]) for a in adjustables]
    return float(_calculate_objective(y, adjustables, measurables, sc.dcp(ps), P))


def calib_terms(at, P, ps, measurables):
    """fractional metric, independently: sum over data years of |model - data| / max(data, 1), weighted"""
    r = at.run_model(P.settings, P.framework, ps)
    terms = []
    for (var, pop, w, metric) in measurables:
        ts = P.data.get_ts(var, pop)
        t, v = ts.get_arrays()
        mv = r.model.get_pop(pop).get_variable(var)[0]
        y2 = np.interp(t, mv.t, mv.vals, left=np.nan, right=np.nan)
        for a, b in zip(v, y2):
            if not (np.isnan(a) or np.isnan(b)):
                terms.append(float(w * abs(b - a) / max(a, 1.0)))
    return terms


def run(prop, tier):
    t0 = time.time()
    at = C.quiet_atomica()
    V = C.Verdict(prop)
    thorough = tier == "thorough"
    cov = dict(states=0, transitions=0, traces_validated_against_impl=0, samples=[], exhaustive=False)
    cnt = Counter()
    records, index = [], {}
    rid = 0
    observed_restore = {}
    try:
        # ---------------- budget optimisation: reference runs, then a failure at every evaluation of the reference run
        problems = [dict(model="udt", pops=None, single_year=False), dict(model="udt", pops=["adults"], single_year=True), dict(model="udt", pops=None, single_year=False, two_years=True)]
        if thorough:
            problems += [dict(model="hiv", pops=None, single_year=False), dict(model="tb_simple", pops=None, single_year=True)]
        seeds = [1, 2, 3, 4, 5, 6] if thorough else [1, 2, 3]
        for pb in problems:
            for via_project in (False, True):
                for seed in (seeds if not via_project else seeds[:1]):
                    try:
                        prob = budget_problem(at, **pb)
                    except Exception as ex:
                        raise C.MachineryError("cannot set up optimisation problem %s: %s" % (pb, ex))
                    P, ps, pg, ins, opt, measurables, prognames, start = prob
                    label = dict(kind="budget optimisation", entry="Project.run_optimization" if via_project else "optimize", seed=seed, **pb)
                    try:
                        outcome, ret, before, after, K = run_budget(at, cnt, prob, seed, None, via_project)
                    except Exception as ex:
                        V.violation("C15 optimisation raised %s pops=%s" % (type(ex).__name__, bool(pb["pops"])), dict(label=label, error=str(ex)[:300]))
                        continue
                    t0_terms = objective_terms(at, P, ps, pg, ins, measurables)
                    t1_terms = objective_terms(at, P, ps, pg, ret, measurables)
                    yrs_ = opt._verif_years
                    x0 = [float(ins.alloc[p].get(y_)) for y_ in yrs_ for p in prognames]
                    x1 = [float(ret.alloc[p].get(y_)) for y_ in yrs_ for p in prognames]
                    records.append(dict(id=rid, outcome=outcome, before=before, after=after, t0=FX.fixseq(t0_terms), t1=FX.fixseq(t1_terms),
                                        vals=FX.fixseq(x1), lows=FX.fixseq([0.25 * v for v in x0]), highs=FX.fixseq([3.0 * v for v in x0]),
                                        total0=FX.fix(sum(x0)), total1=FX.fix(sum(x1)), hastotal=True, haslib=True,  # (with two adjusted years: both years' totals are kept, hence their sum)
                                        lib0=FX.fix(library_objective(at, P, ps, pg, ins, opt, ins)), lib1=FX.fix(library_objective(at, P, ps, pg, ins, opt, ret))))
                    index[rid] = dict(label=label, evaluations=K, crash_at=None, f0=sum(t0_terms), f1=sum(t1_terms), x0=x0, x1=x1)
                    rid += 1
                    ks = range(1, K + 1) if (thorough or K <= 14) else sorted(set(list(range(1, 9)) + [K - 2, K - 1, K]))
                    for kk in ks:
                        prob2 = budget_problem(at, **pb)
                        outcome, ret, before, after, _ = run_budget(at, cnt, prob2, seed, kk, via_project)
                        records.append(dict(id=rid, outcome=outcome, before=before, after=after, t0=[], t1=[], vals=[], lows=[], highs=[], total0=FX.fix(0.0), total1=FX.fix(0.0), hastotal=False))
                        index[rid] = dict(label=label, evaluations=K, crash_at=kk, outcome=outcome)
                        observed_restore.setdefault(label["entry"], []).append(before == after)
                        rid += 1
        # ---------------- the objective alone, for population selections given as one name, a list of one, a list of two (hiv: "males" is part of the name "females")
        for sel in ("females", "males", ["females"], ["females", "males"]):
            for single_year in (True, False):
                prob = budget_problem(at, model="hiv", pops=sel, single_year=single_year)
                P, ps, pg, ins, opt, measurables, prognames, start = prob
                terms = objective_terms(at, P, ps, pg, ins, measurables)
                lib = library_objective(at, P, ps, pg, ins, opt, ins)
                dg = caller_digest(P, ps, pg, ins)
                records.append(dict(id=rid, outcome="returned", before=dg, after=dg, t0=FX.fixseq(terms), t1=FX.fixseq(terms), vals=[], lows=[], highs=[], total0=FX.fix(0.0), total1=FX.fix(0.0),
                                    hastotal=False, haslib=True, lib0=FX.fix(lib), lib1=FX.fix(lib)))
                index[rid] = dict(label=dict(kind="objective only", entry="Measurable (population selection)", model="hiv", pops=sel, single_year=single_year), f_independent=sum(terms), f_library=lib)
                rid += 1
        # ---------------- money minimisation under a hard target (every target class, single years and periods), from a scaled-up start
        from atomica.optimization import optimize as _optimize

        nhard = 0
        for (label, P, ps, pg, ins0, opt, x0, names, start, finite, judge) in hard_target_problems(at, thorough):
            label = dict(kind="money minimisation", entry="optimize", **label)
            before = caller_digest(P, ps, pg, ins0)
            try:
                ret = _optimize(P, opt, ps, pg, ins0, x0=np.array(x0), optim_args={"randseed": 1})
            except Exception as ex:
                V.violation("C15 optimisation raised %s (%s)" % (type(ex).__name__, label["target"]), dict(label=label, error=str(ex)[:300]))
                continue
            after = caller_digest(P, ps, pg, ins0)
            import sciris as _sc

            ins_start = _sc.dcp(ins0)
            for n, v in zip(names, x0):
                ins_start.alloc[n].insert(start, v)
            t0_terms = objective_terms(at, P, ps, pg, ins_start, finite)
            t1_terms = objective_terms(at, P, ps, pg, ret, finite)
            met0, met1 = judge(ins_start), judge(ret)
            x1 = [float(ret.alloc[n].get(start)) for n in names]
            lib0, lib1 = library_objective(at, P, ps, pg, ins0, opt, ins_start), library_objective(at, P, ps, pg, ins0, opt, ret)
            records.append(dict(id=rid, outcome="returned", before=before, after=after, t0=FX.fixseq(t0_terms), t1=FX.fixseq(t1_terms), vals=FX.fixseq(x1),
                                lows=FX.fixseq([v / 1.5 * 0.25 for v in x0]), highs=FX.fixseq([v / 1.5 * 3.0 for v in x0]), total0=FX.fix(0.0), total1=FX.fix(0.0), hastotal=False,
                                haslib=bool(np.isfinite(lib0) and np.isfinite(lib1) and met0 and met1), lib0=FX.fix(lib0 if np.isfinite(lib0) else 0.0), lib1=FX.fix(lib1 if np.isfinite(lib1) else 0.0), hard=[[met0, met1]]))
            index[rid] = dict(label=label, f0=sum(t0_terms), f1=sum(t1_terms), x0=x0, x1=x1, target_met_at_start=met0, target_met_at_return=met1, library_objective=[lib0, lib1])
            rid += 1
            nhard += 1
        cov["hard_target_problems"] = nhard
        # ---------------- calibration
        for seed in seeds + [seeds[0]]:
            late = seed == seeds[0] and "late_done" not in cov and "first_done" in cov
            cov["first_done"] = True
            if late:
                cov["late_done"] = True
            P, ps, adjustables, measurables = calib_problem(at, late_start=late)
            label = dict(kind="calibration", entry="Project.calibrate", seed=seed, simulation_starts_after_first_data_year=late)
            for maxiters in ([1, 2, 3, 4, 6, 12] if not thorough else [1, 2, 3, 4, 5, 6, 8, 12, 25]):
                before = caller_digest(P, ps, None, None)
                cnt.n = 0
                newps = P.calibrate(parset=ps, adjustables=[a for a in adjustables], measurables=[m for m in measurables], max_time=30, maxiters=maxiters, randseed=seed)
                K = cnt.n
                after = caller_digest(P, ps, None, None)
                t0_terms = calib_terms(at, P, ps, measurables)
                t1_terms = calib_terms(at, P, newps, measurables)
                vals = [float(newps.pars[a[0]].y_factor[a[1]]) for a in adjustables]
                records.append(dict(id=rid, outcome="returned", before=before, after=after, t0=FX.fixseq(t0_terms), t1=FX.fixseq(t1_terms), vals=FX.fixseq(vals),
                                    lows=FX.fixseq([a[2] for a in adjustables]), highs=FX.fixseq([a[3] for a in adjustables]), total0=FX.fix(0.0), total1=FX.fix(0.0), hastotal=False,
                                    haslib=True, lib0=FX.fix(library_calib_objective(P, ps, adjustables, measurables)), lib1=FX.fix(library_calib_objective(P, newps, adjustables, measurables))))
                index[rid] = dict(label=dict(maxiters=maxiters, **label), evaluations=K, f0=sum(t0_terms), f1=sum(t1_terms), y_factors=vals)
                rid += 1
            ks = range(1, K + 1) if thorough else sorted(set(list(range(1, 7)) + [K]))
            for kk in ks:
                before = caller_digest(P, ps, None, None)
                cnt.n = 0
                cnt.crash_at = kk
                try:
                    P.calibrate(parset=ps, adjustables=[a for a in adjustables], measurables=[m for m in measurables], max_time=30, maxiters=12, randseed=seed)
                    outcome = "returned"
                except Injected:
                    outcome = "aborted"
                finally:
                    cnt.crash_at = None
                after = caller_digest(P, ps, None, None)
                records.append(dict(id=rid, outcome=outcome, before=before, after=after, t0=[], t1=[], vals=[], lows=[], highs=[], total0=FX.fix(0.0), total1=FX.fix(0.0), hastotal=False))
                index[rid] = dict(label=label, evaluations=K, crash_at=kk, outcome=outcome)
                observed_restore.setdefault("Project.calibrate", []).append(before == after)
                rid += 1
        # ---------------- the caller's lists of adjustables / measurables (given in the short form: names only) are the caller's too
        P, ps, adjustables, measurables = calib_problem(at)
        adj_names, meas_names = sorted({a[0] for a in adjustables}), sorted({m[0] for m in measurables})
        before = caller_digest(P, ps, None, None) + "|" + repr(adj_names) + repr(meas_names)
        newps = P.calibrate(parset=ps, adjustables=adj_names, measurables=meas_names, max_time=30, maxiters=3, randseed=1, default_min_scale=0.5, default_max_scale=1.5)
        after = caller_digest(P, ps, None, None) + "|" + repr(adj_names) + repr(meas_names)
        records.append(dict(id=rid, outcome="returned", before=before, after=after, t0=[], t1=[], vals=[], lows=[], highs=[], total0=FX.fix(0.0), total1=FX.fix(0.0), hastotal=False))
        index[rid] = dict(label=dict(kind="calibration", entry="Project.calibrate (names only)"), adjustables_after=repr(adj_names)[:200], measurables_after=repr(meas_names)[:200])
        rid += 1
        # ---------------- a starting value outside the bounds given: refused before anything is evaluated, or brought inside - never returned outside
        P, ps, adjustables, measurables = calib_problem(at)
        a0 = adjustables[0]
        ps.pars[a0[0]].y_factor[a0[1]] = 3.0  # bounds are [0.5, 1.5]
        for maxiters in (1, 4, 12):
            before = caller_digest(P, ps, None, None)
            cnt.n = 0
            try:
                newps = P.calibrate(parset=ps, adjustables=[a for a in adjustables], measurables=[m for m in measurables], max_time=30, maxiters=maxiters, randseed=1)
                outcome = "returned"
            except Exception as ex:
                newps, outcome = None, "refused (%s) after %d evaluations" % (type(ex).__name__, cnt.n)
                if cnt.n > 0:
                    V.violation("C15 calibration with an out-of-bounds start failed after evaluations had begun", dict(error=str(ex)[:200], evaluations=cnt.n))
            after = caller_digest(P, ps, None, None)
            vals = [float(newps.pars[a[0]].y_factor[a[1]]) for a in adjustables] if newps is not None else []
            records.append(dict(id=rid, outcome="returned" if newps is not None else "aborted", before=before, after=after, t0=[], t1=[], vals=FX.fixseq(vals),
                                lows=FX.fixseq([a[2] for a in adjustables] if vals else []), highs=FX.fixseq([a[3] for a in adjustables] if vals else []), total0=FX.fix(0.0), total1=FX.fix(0.0), hastotal=False))
            index[rid] = dict(label=dict(kind="calibration", entry="Project.calibrate (start outside bounds)", maxiters=maxiters), outcome=outcome, y_factors=vals)
            rid += 1
        # ---------------- step sizes that are not binary fractions: the shortened end year has to come back exactly
        for dt in ([0.3, 0.7] if not thorough else [0.3, 0.7, 1.0 / 3, 0.1, 1.0 / 12, 0.35]):
            for kk in (None, 2):
                P, ps, adjustables, measurables = calib_problem(at, dt=dt)
                label = dict(kind="calibration", entry="Project.calibrate", seed=1, dt=dt)
                before = caller_digest(P, ps, None, None)
                cnt.n, cnt.crash_at = 0, kk
                try:
                    P.calibrate(parset=ps, adjustables=[a for a in adjustables], measurables=[m for m in measurables], max_time=30, maxiters=2, randseed=1)
                    outcome = "returned"
                except Injected:
                    outcome = "aborted"
                finally:
                    cnt.crash_at = None
                after = caller_digest(P, ps, None, None)
                records.append(dict(id=rid, outcome=outcome, before=before, after=after, t0=[], t1=[], vals=[], lows=[], highs=[], total0=FX.fix(0.0), total1=FX.fix(0.0), hastotal=False))
                index[rid] = dict(label=label, evaluations=cnt.n, crash_at=kk, outcome=outcome)
                rid += 1
                prob2 = budget_problem(at, model="udt", pops=None, single_year=False, dt=dt, maxiters=2)
                label = dict(kind="budget optimisation", entry="Project.run_optimization", seed=1, dt=dt)
                outcome, ret, before, after, K = run_budget(at, cnt, prob2, 1, kk, True)
                records.append(dict(id=rid, outcome=outcome, before=before, after=after, t0=[], t1=[], vals=[], lows=[], highs=[], total0=FX.fix(0.0), total1=FX.fix(0.0), hastotal=False))
                index[rid] = dict(label=label, evaluations=K, crash_at=kk, outcome=outcome)
                rid += 1
    finally:
        cnt.close()
    # ---------------- P_spec: the control-flow design under the constant observed for each entry point
    cov["restore_on_failure_observed"] = {k: all(v) for k, v in observed_restore.items()}
    for entry, shortens in (("Project.calibrate", True), ("Project.run_optimization", True), ("optimize", False)):
        restore = cov["restore_on_failure_observed"].get(entry, True)
        cfg = "SPECIFICATION Spec\nCONSTANTS\n Kmax = %d\n Objs = {1,2,3}\n ShortensEnd = %s\n RestoreOnFailure = %s\nINVARIANT NoWorse\nINVARIANT Restored\nINVARIANT WorksOnCopies\nCHECK_DEADLOCK FALSE\n" % (
            8 if thorough else 5, "TRUE" if shortens else "FALSE", "TRUE" if restore else "FALSE")
        d = C.prepare_specdir(["OptLoop"], {"O.cfg": cfg})
        r = C.run_tlc(d, "OptLoop", cfg="O.cfg", workers=4, timeout=600)
        cov["states"] += r.distinct
        cov["transitions"] += r.generated
        if r.violated:
            cov.setdefault("design_refuted", []).append(dict(entry=entry, violated=r.violated, note="the control flow observed on the real code admits the violation; the failing real runs are reported below"))
        else:
            C.tlc_ok(r, "OptLoop " + entry)
    for r_ in records:
        r_.setdefault("haslib", False)
        r_.setdefault("lib0", FX.fix(0.0))
        r_.setdefault("lib1", FX.fix(0.0))
        r_.setdefault("hard", [])
    bad, states = C.validate_batch(["Big", "OptLoopTrace"], "OptLoopTrace", records, chunks=4)
    cov["states"] += states
    cov["transitions"] += states
    cov["traces_validated_against_impl"] = len(records)
    cov["crash_points"] = sum(1 for v in index.values() if v.get("crash_at"))
    for rid_, clause in bad:
        d = index[rid_]
        V.violation("C15 %s %s%s" % (clause, d["label"]["entry"], " crash" if d.get("crash_at") else ""), dict(clause=clause, **d))
    cov["samples"] = [index[0], index[len(index) - 1]]
    return V, cov, time.time() - t0
