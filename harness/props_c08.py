"""C08: simulation is deterministic, leaves its inputs untouched, and survives copying (spec/Effects.tla)."""
import copy
import json
import os
import pickle
import subprocess
import sys
import tempfile
import time

import numpy as np

from . import common as C
from . import digest as DG
from . import worlds as WD

OPS = ["runA", "runAprog", "runB", "runBprog", "copyA", "pickleA", "saveloadA", "freshA", "runAinit", "buildG", "runAedit"]


def gen_project(at):
    """A generated project whose framework has output-only function parameters without dependencies (constants, time),
    parameters built on them, characteristics with several components and a timed compartment: structure the library models lack."""
    import sciris as sc

    w = [x for x in WD.catalogue("quick") if x["id"] == "tgroup"][0]
    extra = [["kconst", "P kconst", None, None, None, None, None, "12.5", None, "n"],
             ["ktime", "P ktime", None, None, None, None, None, "t - 2000", None, "n"],
             ["kprod", "P kprod", None, None, None, None, None, "kconst * ktime + a", None, "n"],
             ["kflow", "P kflow", None, None, None, None, None, "vac:flow + mort:flow", None, "n"]]
    characs = [["alive", "Ch alive", "a, v, w", None, 0, 0, None], ["vw", "Ch vw", "v, w", "alive", 0, 0, None]]
    Fw = WD.make_framework(w, extra_pars=extra, characs=characs)
    D = at.ProjectData.new(Fw, np.array([2000.0, 2001.0]), pops=sc.odict([("p0", "Pop 0")]), transfers=0)
    for name, val in (("a", 100.0), ("v", 9.0), ("w", 3.0), ("vac", 0.7), ("dur", 0.75), ("sw", 0.4), ("mort", 0.2)):
        ts = D.tdve[name].ts[0]
        ts.insert(2000.0, val)
    P = at.Project(framework=Fw, databook=D.to_spreadsheet(), do_run=False)
    P.settings.update_time_vector(start=2000.0, end=2004.0, dt=0.25)
    return P


def gen_progset(at, P):
    """A program set for the generated project assembled through the API the way scripts do it: ProgramSet.new, then targets appended in place."""
    import sciris as sc
    from atomica.programs import Covout
    from atomica.utils import TimeSeries

    pg = at.ProgramSet.new(tvec=np.array([2000.0]), progs=sc.odict([("G1", "Gen 1"), ("G2", "Gen 2")]), framework=P.framework, data=P.data)
    for name, comp, spend in (("G1", "a", 40.0), ("G2", "v", 10.0)):
        pr = pg.programs[name]
        pr.target_pops.append("p0")
        pr.target_comps.append(comp)
        pr.spend_data = TimeSeries(assumption=spend, units="$/year")
        pr.unit_cost = TimeSeries(assumption=1.0, units="$/person/year")
    pg.covouts[("vac", "p0")] = Covout("vac", "p0", {"G1": 0.9}, baseline=0.1)
    pg.covouts[("mort", "p0")] = Covout("mort", "p0", {"G2": 0.05}, baseline=0.3)
    return pg


class Bench:
    def __init__(self, at, names):
        self.at = at
        self.P = {}
        for key, name in names.items():
            P = gen_project(at) if name == "generated" else at.demo(name, do_run=False)
            self.P[key] = P
        self.names = names
        self.psinit = None
        self.ins = {}
        for key, P in self.P.items():
            if P.progsets:
                self.ins[key] = at.ProgramInstructions(start_year=float(P.settings.sim_start + 2), alloc=P.progsets[0])

    def inputs(self, key, prog):
        P = self.P[key]
        objs = [P.parsets[0], P.framework, P.data, P.settings]
        if prog:
            objs += [P.progsets[0], self.ins[key]]
        return objs

    def key_digest(self, key, prog):
        return "|".join(DG.dig(o) for o in self.inputs(key, prog))

    def do(self, op):
        at = self.at
        key = "B" if op.startswith("runB") else "A"
        prog = op.endswith("prog")
        P = self.P[key]
        if prog and key not in self.ins:
            return None
        if op == "buildG":
            G = gen_project(at)
            pg = gen_progset(at, G)
            ins = at.ProgramInstructions(start_year=2001.0, alloc=pg)
            res = "%s/%s" % (DG.dig(pg), DG.result_digest(G.run_sim(G.parsets[0], pg, ins, store_results=False)))
            return dict(op=op, realop=op, key="", before="", after="", result=res, pid=os.getpid())
        if op == "runAedit":
            if getattr(self, "fedit", None) is None:
                import sciris as sc

                self.fedit = sc.dcp(P.framework)  # (same uid as the original)
                tp = [n for n in self.fedit.pars.index if self.fedit.transitions.get(n) and str(self.fedit.pars.at[n, "format"]).lower() in ("probability", "rate")][0]
                self.fedit.pars.at[tp, "maximum value"] = 1e-3
            objs = [P.parsets[0], self.fedit, P.data, P.settings]
            before = "|".join(DG.dig(o) for o in objs)
            res = DG.result_digest(at.run_model(P.settings, self.fedit, P.parsets[0]))
            after = "|".join(DG.dig(o) for o in objs)
            return dict(op=op, realop=op, key=before, before=before, after=after, result=res, pid=os.getpid())
        if op == "runAinit":
            if self.psinit is None:
                import sciris as sc

                r0 = P.run_sim(P.parsets[0], store_results=False)
                q = sc.dcp(P.parsets[0])
                q.set_initialization(r0, float(P.settings.sim_start) + 1.0)
                self.psinit = sc.dcp(P.parsets[0])
                self.psinit.load_calibration(q.calibration_spreadsheet())  # the saved initialization arrives through a calibration file
            objs = [self.psinit, P.framework, P.data, P.settings]
            before = "|".join(DG.dig(o) for o in objs)
            res = DG.result_digest(P.run_sim(self.psinit, store_results=False))
            after = "|".join(DG.dig(o) for o in objs)
            return dict(op=op, realop=op, key=before, before=before, after=after, result=res, pid=os.getpid())
        before = self.key_digest(key, prog)
        ps = P.parsets[0]
        if op in ("runA", "runB"):
            res = DG.result_digest(P.run_sim(ps, store_results=False))
        elif prog:
            res = DG.result_digest(P.run_sim(ps, P.progsets[0], self.ins[key], store_results=False))
        elif op == "copyA":
            m = at.Model(P.settings, P.framework, ps)
            m2 = copy.deepcopy(m)
            m2.process()
            m.process()  # the original must still work after having been copied
            r1, r2 = DG.result_digest(at.Result(m2, ps)), DG.result_digest(at.Result(m, ps))
            res = r1 if r1 == r2 else "copy:%s/original:%s" % (r1, r2)
        elif op == "pickleA":
            m = at.Model(P.settings, P.framework, ps)
            m2 = pickle.loads(pickle.dumps(m))
            m2.process()
            m.process()
            r1, r2 = DG.result_digest(at.Result(m2, ps)), DG.result_digest(at.Result(m, ps))
            res = r1 if r1 == r2 else "pickle:%s/original:%s" % (r1, r2)
        elif op == "saveloadA":
            r = P.run_sim(ps, store_results=False)
            fn = os.path.join(C.scratch(), "res_%d.obj" % os.getpid())
            import sciris as sc

            sc.save(fn, r)
            res = DG.result_digest(sc.load(fn))
            os.remove(fn)
        else:
            raise ValueError(op)
        after = self.key_digest(key, prog)
        canon = "runA" if op in ("copyA", "pickleA", "saveloadA", "freshA") else op
        return dict(op=canon, realop=op, key=before, before=before, after=after, result=res, pid=os.getpid())


def fresh(names, hashseed, op="runA"):
    """Run project A (operation op) in a fresh interpreter with the given PYTHONHASHSEED; returns (key digest, result digest)."""
    env = dict(os.environ, PYTHONHASHSEED=str(hashseed))
    p = subprocess.run([sys.executable, "-m", "harness.props_c08", json.dumps(names), op], cwd=C.VERIF, env=env, stdout=subprocess.PIPE, stderr=subprocess.STDOUT, text=True, timeout=600)
    lines = [l for l in p.stdout.splitlines() if l.startswith("FRESH ")]
    if not lines:
        raise C.MachineryError("fresh-process run failed:\n" + p.stdout[-1500:])
    return json.loads(lines[-1][6:])


def run(prop, tier):
    t0 = time.time()
    at = C.quiet_atomica()
    V = C.Verdict(prop)
    thorough = tier == "thorough"
    maxlen = 3
    cfg = "SPECIFICATION Spec\nCONSTANTS\n MaxLen = %d\n Ops = {%s}\nINVARIANT Functional\nPROPERTY Frame\nCHECK_DEADLOCK FALSE\n" % (maxlen, ",".join('"%s"' % o for o in OPS))
    r, hists = C.enumerate_cases(["Effects"], "Effects", cfg, timeout=1200)
    cov = dict(states=r.distinct, transitions=r.generated, traces_validated_against_impl=0, samples=[], exhaustive=True, histories_enumerated=len(hists))
    rng = np.random.default_rng(C.seed())
    hs = [h["ops"] for h in hists]
    short = [h for h in hs if len(h) <= 2]
    long_ = [h for h in hs if len(h) > 2]
    nlong = len(long_) if thorough else 60
    sel = short + [long_[i] for i in rng.permutation(len(long_))[:nlong]]
    pairs = [dict(A="udt", B="generated"), dict(A="generated", B="tb_simple")] + ([dict(A="hypertension", B="hiv"), dict(A="tb_simple", B="udt")] if thorough else [])
    records, index = [], {}
    rid = 0
    for pi, names in enumerate(pairs):
        bench = Bench(at, names)
        # fresh interpreters with different hash seeds (determinism across processes): part of the same memo table
        for hsd in ([0, 1, 2, 3, 4] if thorough else [0, 1, 2]):
            d = fresh(names, hsd)
            records.append(dict(id=rid, hist=-1, op="runA#%d" % pi, key=d["key"], before=d["key"], after=d["after"], result=d["result"], pid=d["pid"]))
            index[rid] = dict(history=["freshA"], step=0, realop="freshA PYTHONHASHSEED=%d" % hsd, projects=names)
            rid += 1
        d = fresh(names, 0, "runAedit")  # the reference for the edited framework comes from a process that has never seen the original
        records.append(dict(id=rid, hist=-1, op="runAedit#%d" % pi, key=d["key"], before=d["key"], after=d["after"], result=d["result"], pid=d["pid"]))
        index[rid] = dict(history=["freshAedit"], step=0, realop="freshAedit", projects=names)
        rid += 1
        mine = sel if pi == 0 else sel[:: (1 if thorough else 4)]
        for hid, h in enumerate(mine):
            for k, op in enumerate(h):
                if op == "freshA":
                    continue
                e = bench.do(op)
                if e is None:
                    continue
                e["op"] = "%s#%d" % (e["op"], pi)
                records.append(dict(id=rid, hist=hid, **{kk: e[kk] for kk in ("op", "key", "before", "after", "result", "pid")}))
                index[rid] = dict(history=h, step=k, realop=e["realop"], projects=names)
                rid += 1
    bad, states = C.validate_batch(["EffectsTrace"], "EffectsTrace", records, chunks=1, timeout=1800)
    cov["states"] += states
    cov["transitions"] += states
    cov["traces_validated_against_impl"] = len(records)
    cov["histories_executed"] = len(sel)
    for rid_, clause in bad:
        d = index[rid_]
        V.violation("C08 %s %s" % (clause, d["realop"].split(" ")[0]), dict(clause=clause, **d))
    cov["samples"] = [index[0], index[len(index) - 1]]
    return V, cov, time.time() - t0


if __name__ == "__main__":
    # fresh-process entry point: run project A once, print digests
    names = json.loads(sys.argv[1])
    at_ = C.quiet_atomica()
    b = Bench(at_, dict(A=names["A"]))
    e = b.do(sys.argv[2] if len(sys.argv) > 2 else "runA")
    print("FRESH " + json.dumps(dict(key=e["key"], after=e["after"], result=e["result"], pid=e["pid"])))
