"""C16: round trips preserve content and behaviour; objects behave as their visible data (spec/Books.tla)."""
import hashlib
import json
import os
import time

import numpy as np

from . import common as C
from . import digest as DG
from . import fix as FX
from .props_c10 import outputs


# ------------------------------------------------------------------------------------------------ visible content
def num(x):
    if x is None:
        return None
    x = float(x)
    return None if np.isnan(x) else float("%.15g" % x)


def ts_content(ts):
    return dict(t=[num(x) for x in ts.t], vals=[num(x) for x in ts.vals], assumption=num(ts.assumption), sigma=num(ts.sigma), units=(ts.units or "").strip().lower())


def data_content(D):
    out = dict(pops={k: (v["label"], v.get("type")) for k, v in D.pops.items()}, tdve={}, transfers={}, interactions={})
    for name, tdve in D.tdve.items():
        out["tdve"][name] = {pop: ts_content(ts) for pop, ts in tdve.ts.items()}
    for coll, key in ((D.transfers, "transfers"), (D.interpops, "interactions")):
        for tdc in coll:
            out[key][tdc.code_name] = dict(label=tdc.full_name, from_pops=sorted(tdc.from_pops), to_pops=sorted(tdc.to_pops), from_type=tdc.from_pop_type, to_type=tdc.to_pop_type,
                                           ts={"%s->%s" % k: ts_content(ts) for k, ts in tdc.ts.items()})
    return out


def progset_content(pg):
    out = dict(pops=sorted(pg.pops.keys()), comps=sorted(pg.comps.keys()), programs={}, covouts={})
    for name, p in pg.programs.items():
        out["programs"][name] = dict(label=p.label, target_pops=sorted(p.target_pops), target_comps=sorted(p.target_comps), spend=ts_content(p.spend_data), unit_cost=ts_content(p.unit_cost),
                                     capacity_constraint=ts_content(p.capacity_constraint), saturation=ts_content(p.saturation), coverage=ts_content(p.coverage))
    for (par, pop), co in pg.covouts.items():
        out["covouts"]["%s|%s" % (par, pop)] = dict(baseline=num(co.baseline), cov_interaction=co.cov_interaction, sigma=num(co.sigma), progs={k: num(v) for k, v in co.progs.items()},
                                                    interactions=sorted(("+".join(sorted(k)), num(v + co.baseline)) for k, v in co._interactions.items()))
    return out


def framework_content(F):
    out = {}
    for name, sheets in F.sheets.items():
        out[name] = []
        for df in sheets:
            d = df.reset_index() if df.index.name else df
            # (a transition cell lists parameters separated by commas: the list is the content, not the spacing around the commas)
            txt = (lambda v: ",".join(t.strip() for t in str(v).split(","))) if name == "transitions" else str
            out[name].append([[("" if (isinstance(v, float) and np.isnan(v)) or v is None else (num(v) if isinstance(v, (int, float, np.floating, np.integer)) and not isinstance(v, bool) else txt(v))) for v in row] for row in d.to_numpy(dtype=object).tolist()])
    return out


def parset_content(ps):
    out = {}
    for par in ps.all_pars():
        out[par.name if not hasattr(par, "_tag") else par.name] = dict(meta=num(par.meta_y_factor), y={k: num(v) for k, v in par.y_factor.items()}, ts={str(k): ts_content(ts) for k, ts in par.ts.items()})
    return out


def dg(content):
    return hashlib.sha256(json.dumps(content, sort_keys=True, default=str).encode()).hexdigest()[:16]


def book_sets(pg):
    return dict(pops=sorted(pg.pops.keys()), progs=sorted(pg.programs.keys()), pars=sorted(pg.pars.keys()),
                targets=sorted("%s|%s" % (p.name, pop) for p in pg.programs.values() for pop in p.target_pops),
                effects=sorted("%s|%s|%s" % (par, pop, prog) for (par, pop), co in pg.covouts.items() for prog in co.progs),
                comps=sorted(pg.comps.keys()), ctargets=sorted("%s|%s" % (p.name, c) for p in pg.programs.values() for c in p.target_comps))


def want_sets(content):
    return dict(pops=sorted(content["pops"]), progs=sorted(content["progs"]), pars=sorted(content["pars"]),
                targets=sorted("%s|%s" % tuple(t) for t in content["targets"]), effects=sorted("%s|%s|%s" % tuple(e) for e in content["effects"]),
                comps=sorted(content["comps"]), ctargets=sorted("%s|%s" % tuple(t) for t in content["ctargets"]))


def tla_set(xs):
    return "{%s}" % ",".join(xs)


def close_records(records, index, rid, label, ra, rb):
    a, b = outputs(ra, 0), outputs(rb, 0)
    for key in sorted(set(a) & set(b)):
        x, y = a[key], b[key]
        n = min(len(x), len(y)) - (1 if key.startswith(("L:", "P:")) else 0)
        x, y = x[:n], y[:n]
        ok = np.isfinite(x) & np.isfinite(y)
        records.append(dict(id=rid, kind="close", a=FX.fixseq(x[ok][::3]), b=FX.fixseq(y[ok][::3])))
        index[rid] = dict(label=label, key=key)
        rid += 1
    if set(a) != set(b):
        records.append(dict(id=rid, kind="same", a="outputs:" + ",".join(sorted(a)), b="outputs:" + ",".join(sorted(b))))
        index[rid] = dict(label=label, key="set of outputs")
        rid += 1
    return rid


def multitype_project(at):
    """A generated project with two population types (hosts / vectors), cross-type interactions, a transfer between host
    populations, uncertainties and a transfer / interaction with a space in its name: structure none of the loadable library books has."""
    import io

    import sciris as sc
    import xlsxwriter

    f = io.BytesIO()
    wb = xlsxwriter.Workbook(f)
    wb.set_properties({"category": "atomica:framework"})

    def sheet(name, rows):
        ws = wb.add_worksheet(name)
        for i, r in enumerate(rows):
            for j, c in enumerate(r):
                if c is not None:
                    ws.write(i, j, c)

    sheet("Population types", [["Code name", "Description"], ["host", "Hosts"], ["vect", "Vectors"]])
    sheet("Databook Pages", [["Datasheet Code Name", "Datasheet Title"], ["hp", "Hosts"], ["vp", "Vectors"]])
    sheet("Compartments", [["Code Name", "Display Name", "Is Source", "Is Sink", "Is Junction", "Setup Weight", "Databook Page", "Default Value", "Population type"],
                           ["hs", "Host susceptible", "n", "n", "n", 1, "hp", None, "host"], ["hi", "Host infected", "n", "n", "n", 1, "hp", None, "host"],
                           ["vs", "Vector susceptible", "n", "n", "n", 1, "vp", None, "vect"], ["vi", "Vector infected", "n", "n", "n", 1, "vp", None, "vect"]])
    sheet("Characteristics", [["Code Name", "Display Name", "Components", "Denominator", "Default Value", "Setup Weight", "Databook Page", "Population type"],
                              ["hall", "Hosts alive", "hs,hi", None, None, 0, None, "host"], ["vall", "Vectors alive", "vs,vi", None, None, 0, None, "vect"]])
    sheet("Parameters", [["Code Name", "Display Name", "Format", "Timescale", "Default Value", "Minimum Value", "Maximum Value", "Function", "Population type", "Targetable", "Databook Page"],
                         ["hprev", "Host prevalence", "fraction", None, None, 0, 1, "hi/hall", "host", "n", None], ["vprev", "Vector prevalence", "fraction", None, None, 0, 1, "vi/vall", "vect", "n", None],
                         ["hbeta", "Host infectiousness", "probability", 1, None, 0, None, None, "host", "n", "hp"], ["vbeta", "Vector infectiousness", "probability", 1, None, 0, None, None, "vect", "n", "vp"],
                         ["hout", "Host outgoing", "probability", 1, None, 0, None, "hprev*hbeta", "host", "n", None], ["vout", "Vector outgoing", "probability", 1, None, 0, None, "vprev*vbeta", "vect", "n", None],
                         ["hfoi", "Host force of infection", "probability", 1, None, 0, None, "SRC_POP_AVG(vout, bite_vh)", "host", "n", None],
                         ["vfoi", "Vector force of infection", "probability", 1, None, 0, None, "SRC_POP_AVG(hout, bite_hv)", "vect", "n", None],
                         ["hrec", "Host recovery", "probability", 1, None, 0, None, None, "host", "n", "hp"], ["vrec", "Vector recovery", "probability", 1, None, 0, None, None, "vect", "n", "vp"]])
    sheet("Interactions", [["Code Name", "Display Name", "Default Value", "From population type", "To population type"],
                           ["bite_vh", "Vector to host biting", None, "vect", "host"], ["bite_hv", "Host to vector biting", None, "host", "vect"]])
    sheet("Transitions", [["host", "hs", "hi"], ["hs", None, "hfoi"], ["hi", "hrec", None], [], ["vect", "vs", "vi"], ["vs", None, "vfoi"], ["vi", "vrec", None]])
    sheet("Cascades", [["Host cascade", "Constituents"], ["Alive", "hall"], ["Infected", "hi"]])
    wb.close()
    Fw = at.ProjectFramework(sc.Spreadsheet(f))
    pops = sc.odict([("young", {"label": "Young hosts", "type": "host"}), ("old", {"label": "Old hosts", "type": "host"}), ("mosq", {"label": "Mosquitoes", "type": "vect"})])
    D = at.ProjectData.new(Fw, np.arange(2000, 2004), pops, sc.odict([("age", {"label": "Ageing up", "type": "host"})]))
    vals = dict(hs=dict(young=900, old=1800), hi=dict(young=100, old=200), vs=dict(mosq=9000), vi=dict(mosq=1000), hbeta=dict(young=0.3, old=0.2), vbeta=dict(mosq=0.5), hrec=dict(young=0.4, old=0.5), vrec=dict(mosq=0.9))
    for k, d in vals.items():
        for pop, v in d.items():
            ts = D.tdve[k].ts[pop]
            ts.insert(2000.0, float(v))
            ts.sigma = 0.0625
    for tdc in D.transfers:
        tdc.ts[("young", "old")] = at.TimeSeries(t=[2000.0, 2002.0], vals=[0.05, 0.075], units="Rate (per year)") if hasattr(at, "TimeSeries") else None
    from atomica.utils import TimeSeries

    for tdc in D.transfers:
        tdc.ts[("young", "old")] = TimeSeries([2000.0, 2002.0], [0.05, 0.075], units="Rate (per year)")
    for tdc in D.interpops:
        for a in tdc.from_pops:
            for b in tdc.to_pops:
                tdc.ts[(a, b)] = TimeSeries(assumption=0.5 + 0.25 * (a == "young"), units="N.A.")
    P = at.Project(framework=Fw, databook=D.to_spreadsheet(), do_run=False)
    P.settings.update_time_vector(start=2000.0, end=2003.0, dt=0.25)
    return P, D


def run(prop, tier):
    t0 = time.time()
    at = C.quiet_atomica()
    import sciris as sc

    V = C.Verdict(prop)
    thorough = tier == "thorough"
    rng = np.random.default_rng(C.seed())
    cov = dict(states=0, transitions=0, traces_validated_against_impl=0, samples=[], exhaustive=True, histories=0)
    records, index = [], {}
    rid = 0
    # ================= program-set histories (Books.tla)
    for name in (["udt", "hiv"] if thorough else ["hiv"]):
        P = at.demo(name, do_run=False)
        pg0 = sc.dcp(P.progsets[0])
        # one effect row with an explicit interaction outcome, a non-zero baseline and an uncertainty of 0 (sampling then rewrites the
        # interaction text from its cache without changing any value)
        third_ = None
        for co in sorted(pg0.covouts.values(), key=lambda c_: -min(len(c_.progs), 3)):  # (an effect row of three programs if there is one: removing the third leaves the pair's outcome in place)
            if len(co.progs) >= 2:
                names_ = list(co.progs.keys())[:2]
                third_ = (list(co.progs.keys()) + [None])[2]
                base_ = float(co.baseline) if co.baseline else 0.0625
                co.__init__(co.par, co.pop, co.progs, cov_interaction=co.cov_interaction, imp_interaction="%s+%s=%r" % (names_[0], names_[1], base_ + 0.123456789), uncertainty=0.0, baseline=base_)  # (more digits than a rounded re-write keeps)
                cov["explicit_interaction_row"] = "%s|%s" % (co.par, co.pop)
                break
        bs = book_sets(pg0)
        q = lambda s: '"%s"' % s
        mc = "---- MODULE MCBooks ----\nEXTENDS Books\n"
        mc += "MCPops == %s\nMCProgs == %s\nMCPars == %s\n" % (tla_set(map(q, bs["pops"])), tla_set(map(q, bs["progs"])), tla_set(map(q, bs["pars"])))
        mc += "MCTargets == %s\n" % tla_set("<<%s>>" % ",".join(map(q, t.split("|"))) for t in bs["targets"])
        mc += "MCEffects == %s\n" % tla_set("<<%s>>" % ",".join(map(q, e.split("|"))) for e in bs["effects"])
        mc += "MCComps == %s\nMCCTargets == %s\n" % (tla_set(map(q, bs["comps"])), tla_set("<<%s>>" % ",".join(map(q, t.split("|"))) for t in bs["ctargets"]))
        mc += 'MCOps == {"copy", "sample0", "roundtrip", "add_pop", "remove_pop", "add_program", "remove_program", "remove_par", "add_par", "remove_comp", "add_comp"}\n====\n'
        cfg = "SPECIFICATION Spec\nCONSTANTS\n Pops0 <- MCPops\n Progs0 <- MCProgs\n Pars0 <- MCPars\n Targets0 <- MCTargets\n Effects0 <- MCEffects\n Comps0 <- MCComps\n CTargets0 <- MCCTargets\n NewPop = \"newpop\"\n NewProg = \"newprog\"\n MaxLen = %d\n Ops <- MCOps\nINVARIANT WellFormed\nCHECK_DEADLOCK FALSE\n" % (3 if thorough else 2)
        r, hists = C.enumerate_cases(["Books"], "MCBooks", cfg, timeout=2400, generated={"MCBooks.tla": mc})
        cov["states"] += r.distinct
        cov["transitions"] += r.generated
        full = [h for h in hists]
        nmax = 400 if thorough else 120
        if len(full) > nmax:
            # histories that re-add a removed compartment or parameter need two cooperating operations: a plain sample of the histories
            # rarely holds one, so a share of the sample is reserved for them
            readd = [h for h in full if any(op in ("add_comp", "add_par") for op, _, _ in h["hist"])]
            rest = [h for h in full if not any(op in ("add_comp", "add_par") for op, _, _ in h["hist"])]
            readd = [readd[i] for i in rng.permutation(len(readd))[: nmax // 4]]
            full = readd + [rest[i] for i in rng.permutation(len(rest))[: nmax - len(readd)]]
            cov["histories_readding"] = cov.get("histories_readding", 0) + len(readd)
        cov["histories"] += len(full)
        ins_year = float(P.settings.sim_start + 2)
        for h in full:
            pg = sc.dcp(pg0)
            D = sc.dcp(P.data)
            ok = True
            for (op, arg, by) in h["hist"]:
                code_ = arg
                if by == "label":  # (Books.Bys: the removal is called with the full name instead of the code name)
                    coll_ = dict(remove_pop=pg.pops, remove_par=pg.pars, remove_comp=pg.comps).get(op)
                    arg = pg.programs[arg].label if op == "remove_program" else coll_[arg]["label"]
                try:
                    if op == "copy":
                        pg = pg.copy() if hasattr(pg, "copy") else sc.dcp(pg)
                    elif op == "sample0":
                        pg = pg.sample()
                    elif op == "roundtrip":
                        pg = at.ProgramSet.from_spreadsheet(pg.to_spreadsheet(), framework=P.framework, data=D, _allow_missing_data=True)
                    elif op == "add_pop":
                        D.add_pop(arg, "New pop")
                        pg.add_pop(arg, "New pop")
                    elif op == "remove_pop":
                        pg.remove_pop(arg)
                        D.remove_pop(code_)
                    elif op == "add_program":
                        pg.add_program(arg, "New prog")
                    elif op == "remove_program":
                        pg.remove_program(arg)
                    elif op == "remove_par":
                        pg.remove_par(arg)
                    elif op == "add_par":
                        pg.add_par(arg, P.framework.get_label(arg))
                    elif op == "remove_comp":
                        pg.remove_comp(arg)
                    elif op == "add_comp":
                        pg.add_comp(arg, P.framework.get_label(arg))
                except Exception as ex:
                    V.violation("C16 %s raised %s" % (op, type(ex).__name__), dict(model=name, history=h["hist"], error=str(ex)[:300]))
                    ok = False
                    break
            if not ok:
                continue
            got, want = book_sets(pg), want_sets(h["content"])
            for k in ("pops", "progs", "pars", "targets", "effects", "comps", "ctargets"):  # (Books.RoundTrip: the lists of targetable parameters and of compartments are read from the framework again on import)
                records.append(dict(id=rid, kind="content", want=want[k], got=got[k]))
                index[rid] = dict(label=dict(model=name, history=h["hist"]), what="visible %s after the history" % k, extra=sorted(set(got[k]) - set(want[k]))[:5], missing=sorted(set(want[k]) - set(got[k]))[:5])
                rid += 1
            # the object equals the object rebuilt from its own export (content), also for a second round trip
            try:
                ss1 = pg.to_spreadsheet()
                pg2 = at.ProgramSet.from_spreadsheet(ss1, framework=P.framework, data=D, _allow_missing_data=True)
                pg3 = at.ProgramSet.from_spreadsheet(pg2.to_spreadsheet(), framework=P.framework, data=D, _allow_missing_data=True)
                exp_ = progset_content(pg)
                exp_["comps"] = bs["comps"]  # (Books.RoundTrip: comps' = Comps0, the list of compartments is read from the framework again)
                records.append(dict(id=rid, kind="same", a=dg(exp_), b=dg(progset_content(pg2))))
                index[rid] = dict(label=dict(model=name, history=h["hist"]), what="program set vs rebuilt from its own export (visible content)")
                rid += 1
                records.append(dict(id=rid, kind="same", a=dg(progset_content(pg2)), b=dg(progset_content(pg3))))
                index[rid] = dict(label=dict(model=name, history=h["hist"]), what="second program book round trip")
                rid += 1
            except Exception as ex:
                V.violation("C16 export/import after history raised %s" % type(ex).__name__, dict(model=name, history=h["hist"], error=str(ex)[:300]))
        # pinned editing operations (whatever the sample of histories above contains): removing the third program of the effect row with the
        # explicit interaction outcome; removing a parameter with effects by its full name and by its code name
        # zero-uncertainty sampling changes no value (the program set of this model carries no uncertainty other than the explicit 0 on the
        # interaction row): the sampled object has the content of the original
        try:
            np.random.seed(C.seed())
            pgs0 = pg0.sample()
            records.append(dict(id=rid, kind="same", a=dg(progset_content(pg0)), b=dg(progset_content(pgs0))))
            index[rid] = dict(label=dict(model=name, history=[["sample0", None]]), what="program set vs its zero-uncertainty sample (visible content)")
            rid += 1
        except Exception as ex:
            V.violation("C16 sample0 raised %s" % type(ex).__name__, dict(model=name, error=str(ex)[:300]))
        pins = []
        if third_:
            pins.append(("remove_program", third_))
        epar = sorted({par_ for (par_, _pop) in pg0.covouts.keys()})[0]
        pins += [("remove_par", epar), ("remove_par", P.framework.get_label(epar))]
        for (op, arg) in pins:
            pg = sc.dcp(pg0)
            try:
                getattr(pg, op)(arg)
                want_eff = [e for e in book_sets(pg0)["effects"] if not ((op == "remove_program" and e.split("|")[2] == arg) or (op == "remove_par" and e.split("|")[0] == epar))]
                records.append(dict(id=rid, kind="content", want=sorted(want_eff), got=book_sets(pg)["effects"]))
                index[rid] = dict(label=dict(model=name, history=[[op, arg]]), what="visible effects after the operation", extra=sorted(set(book_sets(pg)["effects"]) - set(want_eff))[:5], missing=sorted(set(want_eff) - set(book_sets(pg)["effects"]))[:5])
                rid += 1
                pg2 = at.ProgramSet.from_spreadsheet(pg.to_spreadsheet(), framework=P.framework, data=P.data, _allow_missing_data=True)
                records.append(dict(id=rid, kind="same", a=dg(progset_content(pg)), b=dg(progset_content(pg2))))
                index[rid] = dict(label=dict(model=name, history=[[op, arg]]), what="program set vs rebuilt from its own export (visible content)")
                rid += 1
                if op == "remove_program":
                    # explicit outcomes of combinations that do not involve the removed program are the values they were
                    keep = lambda pg_: {k_: [it for it in v_["interactions"] if arg not in it[0].split("+")] for k_, v_ in progset_content(pg_)["covouts"].items()}
                    records.append(dict(id=rid, kind="same", a=dg(keep(pg0)), b=dg(keep(pg))))
                    index[rid] = dict(label=dict(model=name, history=[[op, arg]]), what="explicit outcomes of the surviving combinations after the removal", before=str(keep(pg0))[:200], after=str(keep(pg))[:200])
                    rid += 1
            except Exception as ex:
                V.violation("C16 %s raised %s" % (op, type(ex).__name__), dict(model=name, history=[[op, arg]], error=str(ex)[:300]))
    # ================= databook year columns and sparse series (DataYears.tla)
    P = at.demo("udt", do_run=False)
    D0 = sc.dcp(P.data)
    D0.add_transfer("mig", "Migration")  # (a transfer table, so that adding a population has two ends to extend)
    base_pops = list(D0.pops.keys())
    base_years = [float(y) for y in D0.tvec]
    extra = [base_years[0] - 1.0, base_years[-1] + 1.0, base_years[-1] + 2.0]
    tkey = list(D0.tdve.keys())[0]
    val_at = lambda y: 1000.0 + (y - base_years[0]) * 12.5 + 0.123456789
    cfg = "SPECIFICATION Spec\nCONSTANTS\n Years = {%s}\n Cols0 = {}\n Data0 = {}\n Forms = {\"array\", \"list\"}\n NewPops = {\"cc\"}\n MaxLen = %d\nINVARIANT Representable\nCHECK_DEADLOCK FALSE\n" % (",".join(str(int(y)) for y in extra), 4 if thorough else 3)
    r, hists = C.enumerate_cases(["DataYears"], "DataYears", cfg, timeout=1200)
    cov["states"] += r.distinct
    cov["transitions"] += r.generated
    full = [h for h in hists if h["hist"]]
    nmax = 160 if thorough else 48
    if len(full) > nmax:
        withlist = [h for h in full if (any(f == "list" for _, _, f in h["hist"]) and h["hist"][-1][0] != "change_tvec") or any(op == "set_sigma" for op, _, _ in h["hist"])]
        rest = [h for h in full if h not in withlist]
        withlist = [withlist[i] for i in rng.permutation(len(withlist))[: nmax // 2]]
        full = withlist + [rest[i] for i in rng.permutation(len(rest))[: nmax - len(withlist)]]
    cov["databook_year_histories"] = len(full)
    for h in full:
        D = sc.dcp(D0)
        lab_ = dict(model="udt databook", history=[[op, sorted(arg), f] for op, arg, f in h["hist"]])
        try:
            for (op, arg, form) in h["hist"]:
                ts_ = D.tdve[tkey].ts[0]
                if op == "change_tvec":
                    yrs = sorted(base_years + [float(y) for y in arg])
                    D.change_tvec(np.array(yrs) if form == "array" else list(yrs))
                elif op == "set_value":
                    ts_.insert(float(list(arg)[0]), val_at(float(list(arg)[0])))
                elif op == "remove_value":
                    ts_.remove(float(list(arg)[0]))
                elif op == "set_sigma":
                    ts_.sigma = dict(none=None, zero=0.0, pos=0.25)[list(arg)[0]]
                elif op == "add_pop":
                    D.add_pop(list(arg)[0], "Pop " + list(arg)[0])
                elif op == "remove_pop":
                    D.remove_pop(list(arg)[0])
                elif op == "roundtrip":
                    D = at.ProjectData.from_spreadsheet(D.to_spreadsheet(), P.framework)
            ts_ = D.tdve[tkey].ts[0]
            records.append(dict(id=rid, kind="same", a=dg(dict(none=None, zero=0.0, pos=0.25)[h["content"]["sigma"]]), b=dg(num(ts_.sigma))))
            index[rid] = dict(label=lab_, what="uncertainty of the tracked series after the history", before=h["content"]["sigma"], after=str(ts_.sigma))
            rid += 1
            want_pops = base_pops + sorted(h["content"]["pops"])
            records.append(dict(id=rid, kind="same", a=dg(dict(pops=want_pops, ends=[[want_pops, want_pops] for _ in D.transfers])), b=dg(dict(pops=list(D.pops.keys()), ends=[[list(t_.from_pops), list(t_.to_pops)] for t_ in D.transfers]))))
            index[rid] = dict(label=lab_, what="populations of the databook and at either end of its transfers (as lists) after the history", before=str(want_pops), after=str([[list(t_.from_pops), list(t_.to_pops)] for t_ in D.transfers])[:200])
            rid += 1
            want = h["content"]
            got_cols = sorted({str(int(y)) for tab in D.tables() for y in tab.tvec if float(y) not in base_years})
            records.append(dict(id=rid, kind="content", want=sorted(str(int(y)) for y in want["cols"]), got=got_cols))
            index[rid] = dict(label=lab_, what="extra year columns of the databook tables after the history")
            rid += 1
            records.append(dict(id=rid, kind="content", want=sorted(str(int(y)) for y in want["data"]), got=sorted(str(int(y)) for y in ts_.t if float(y) not in base_years)))
            index[rid] = dict(label=lab_, what="extra years with a value in the tracked series after the history")
            rid += 1
            D2 = at.ProjectData.from_spreadsheet(D.to_spreadsheet(), P.framework)
            records.append(dict(id=rid, kind="same", a=dg(data_content(D)), b=dg(data_content(D2))))
            index[rid] = dict(label=lab_, what="databook vs rebuilt from its own export (visible content)", before=str(ts_content(ts_))[:200], after=str(ts_content(D2.tdve[tkey].ts[0]))[:200])
            rid += 1
        except Exception as ex:
            V.violation("C16 databook history raised %s" % type(ex).__name__, dict(error=str(ex)[:300], **lab_))
    # ================= round trips of every kind of file, content and behaviour
    for name in (["udt", "tb_simple", "hiv"] + (["usdt", "hypertension", "tb", "diabetes"] if thorough else [])):
        P = at.demo(name, do_run=False)
        ps, pg = P.parsets[0], P.progsets[0]
        if name == "tb":
            P.settings.update_time_vector(end=float(P.settings.sim_start) + 5)
        ins = at.ProgramInstructions(start_year=float(P.settings.sim_start + 2), alloc=pg)
        base = P.run_sim(ps, pg, ins, store_results=False)
        lab = lambda what: dict(model=name, what=what)
        # databook (with uncertainties added, a new population, a removed one is covered by histories)
        D = sc.dcp(P.data)
        k0 = list(D.tdve.keys())[0]
        for j, ts in enumerate(D.tdve[k0].ts.values()):
            ts.sigma = 0.125 + j
        D2 = at.ProjectData.from_spreadsheet(D.to_spreadsheet(), P.framework)
        D3 = at.ProjectData.from_spreadsheet(D2.to_spreadsheet(), P.framework)
        records.append(dict(id=rid, kind="same", a=dg(data_content(D)), b=dg(data_content(D2))))
        index[rid] = dict(label=lab("databook round trip (visible content incl. uncertainties)"))
        rid += 1
        records.append(dict(id=rid, kind="same", a=dg(data_content(D2)), b=dg(data_content(D3))))
        index[rid] = dict(label=lab("second databook round trip"))
        rid += 1
        r2 = at.run_model(P.settings, P.framework, at.ParameterSet(P.framework, D2), pg, ins)
        r1 = at.run_model(P.settings, P.framework, at.ParameterSet(P.framework, P.data), pg, ins)
        rid = close_records(records, index, rid, lab("simulation from the re-imported databook"), r2, r1)
        # framework
        F2 = at.ProjectFramework(P.framework.to_spreadsheet())
        F3 = at.ProjectFramework(F2.to_spreadsheet())
        records.append(dict(id=rid, kind="same", a=dg(framework_content(P.framework)), b=dg(framework_content(F2))))
        index[rid] = dict(label=lab("framework round trip (sheet contents)"))
        rid += 1
        records.append(dict(id=rid, kind="same", a=dg(framework_content(F2)), b=dg(framework_content(F3))))
        index[rid] = dict(label=lab("second framework round trip"))
        rid += 1
        rid = close_records(records, index, rid, lab("simulation with the re-imported framework"), at.run_model(P.settings, F2, at.ParameterSet(F2, P.data)), at.run_model(P.settings, P.framework, at.ParameterSet(P.framework, P.data)))
        # program book (one effect of exactly zero, one explicit uncertainty: values that are easy to lose in a spreadsheet)
        pgm = sc.dcp(pg)
        co0 = list(pgm.covouts.values())[0]
        co0.progs[list(co0.progs.keys())[0]] = 0.0
        co0.sigma = 0.25
        co0.update_outcomes()
        pg2 = at.ProgramSet.from_spreadsheet(pgm.to_spreadsheet(), framework=P.framework, data=P.data)
        records.append(dict(id=rid, kind="same", a=dg(progset_content(pgm)), b=dg(progset_content(pg2))))
        index[rid] = dict(label=lab("program book round trip (visible content)"))
        rid += 1
        rid = close_records(records, index, rid, lab("simulation with the re-imported program book"), P.run_sim(ps, pg2, ins, store_results=False), P.run_sim(ps, pgm, ins, store_results=False))
        # a program book whose tables do not all carry the same year columns (dense years for the first program, the last table keeps only
        # the years it has data for): read it, write it, read it again
        try:
            import openpyxl
            import io as _io

            pgs = sc.dcp(pg)
            yrs = [float(y) for y in pgs.tvec]
            if len(yrs) >= 2:
                first = pgs.programs[0]
                b0 = float(first.spend_data.interpolate(yrs[0])[0])
                for i_, y_ in enumerate(yrs):
                    first.spend_data.insert(y_, b0 * (1 + 0.5 * i_))
                wb_ = openpyxl.load_workbook(pgs.to_spreadsheet().tofile(), data_only=True)
                ws_ = wb_["Spending data"]
                last_name = pgs.programs.keys()[-1]
                hr = [r_ for r_ in range(1, ws_.max_row + 1) if ws_.cell(r_, 1).value == last_name][-1]
                rows_ = []
                r_ = hr
                while r_ <= ws_.max_row and ws_.cell(r_, 1).value is not None:
                    rows_.append(r_)
                    r_ += 1
                for c_ in range(2, ws_.max_column + 1):
                    if isinstance(ws_.cell(hr, c_).value, (int, float)) and all(ws_.cell(rr_, c_).value is None for rr_ in rows_[1:]):
                        ws_.cell(hr, c_).value = None
                f_ = _io.BytesIO()
                wb_.save(f_)
                f_.seek(0)
                ps1 = at.ProgramSet.from_spreadsheet(sc.Spreadsheet(f_), framework=P.framework, data=P.data)
                ps2 = at.ProgramSet.from_spreadsheet(ps1.to_spreadsheet(), framework=P.framework, data=P.data)
                records.append(dict(id=rid, kind="same", a=dg(progset_content(ps1)), b=dg(progset_content(ps2))))
                index[rid] = dict(label=lab("program book with sparse and dense year columns: round trip (visible content)"))
                rid += 1
                ins_s = at.ProgramInstructions(start_year=yrs[0])
                rid = close_records(records, index, rid, lab("simulation with the re-imported program book (sparse / dense years)"), P.run_sim(ps, ps2, ins_s, store_results=False), P.run_sim(ps, ps1, ins_s, store_results=False))
        except Exception as ex:
            V.violation("C16 sparse-year program book raised %s" % type(ex).__name__, dict(model=name, error=str(ex)[:300]))
        # calibration: values survive; unknown entries are skipped (also as the first row); missing entries keep existing values
        q = sc.dcp(ps)
        for j, par in enumerate(q.all_pars()):
            par.meta_y_factor = [1.0, 1.375, 0.75][j % 3]
            for pn in par.y_factor:
                par.y_factor[pn] = [0.875, 1.0, 1.125][(j + 1) % 3]
        ss = q.calibration_spreadsheet()
        fresh = sc.dcp(ps)
        fresh.load_calibration(ss)
        records.append(dict(id=rid, kind="same", a=dg(parset_content(q)), b=dg(parset_content(fresh))))
        index[rid] = dict(label=lab("calibration round trip (all factors)"))
        rid += 1
        import pandas as pd
        import io

        df = pd.read_excel(ss.pandas(), 0)
        for variant in ("unknown entry first", "unknown entry last", "entries missing"):
            d2 = df.copy()
            unknown = pd.DataFrame([{c: (("no_such_par" if c == "par" else d2[c].iloc[0] if c == "pop" else 7.0)) for c in d2.columns}])
            if variant == "unknown entry first":
                d2 = pd.concat([unknown, d2], ignore_index=True)
            elif variant == "unknown entry last":
                d2 = pd.concat([d2, unknown], ignore_index=True)
            else:
                d2 = d2.iloc[: max(1, len(d2) // 2)]
            bio = io.BytesIO()
            with pd.ExcelWriter(bio) as w:
                d2.to_excel(w, sheet_name="Y-factors", index=False)
            tgt = sc.dcp(ps)
            try:
                bio.seek(0)
                tgt.load_calibration(sc.Spreadsheet(bio))
            except Exception as ex:
                V.violation("C16 load_calibration raised %s (%s)" % (type(ex).__name__, variant), dict(model=name, variant=variant, error=str(ex)[:300]))
                continue
            # expected: every entry of the file that names an existing (parameter[, from-population]) takes the file's factors (= those of q),
            # every other parameter keeps the factors it had; compared position by position over all_pars() (plain parameters, transfers, interactions)
            def keys_of(pset):
                k = {}
                for n_, p_ in pset.pars.items():
                    k[id(p_)] = (n_, None)
                for coll in (pset.transfers, pset.interactions):
                    for tn_, d_ in coll.items():
                        for fp_, p_ in d_.items():
                            k[id(p_)] = (tn_, fp_)
                return k

            present = {(r_["par"], r_["pop"] if isinstance(r_["pop"], str) else None) for _, r_ in d2.iterrows()}
            fac = lambda p_: (num(p_.meta_y_factor), {k_: num(v_) for k_, v_ in p_.y_factor.items()})
            kq = keys_of(ps)
            want = [fac(pq) if kq[id(p0)] in present else fac(p0) for p0, pq in zip(ps.all_pars(), q.all_pars())]
            got = [fac(pt) for pt in tgt.all_pars()]
            records.append(dict(id=rid, kind="same", a=dg(want), b=dg(got)))
            index[rid] = dict(label=lab("load_calibration: %s" % variant))
            rid += 1
        # binary project and result files
        fn = os.path.join(C.scratch(), "p_%d.prj" % os.getpid())
        P.save(fn)
        P2 = at.Project.load(fn)
        os.remove(fn)
        records.append(dict(id=rid, kind="same", a=DG.dig(P.parsets[0]) + DG.dig(P.data) + DG.dig(P.progsets[0]), b=DG.dig(P2.parsets[0]) + DG.dig(P2.data) + DG.dig(P2.progsets[0])))
        index[rid] = dict(label=lab("binary project save / load (structural digest)"))
        rid += 1
        records.append(dict(id=rid, kind="same", a=DG.result_digest(base), b=DG.result_digest(P2.run_sim(P2.parsets[0], P2.progsets[0], ins, store_results=False))))
        index[rid] = dict(label=lab("simulation from the loaded project is bit-identical"))
        rid += 1
        fn = os.path.join(C.scratch(), "r_%d.obj" % os.getpid())
        byname = lambda r_: {pp.name + "/" + par_.name: [float(np.sum(x_.vals[:-1])) for x_ in pp.get_variable(par_.name + ":flow")] for pp in r_.model.pops for par_ in pp.pars if par_.links}
        byname0 = byname(base)  # (before saving: saving re-links the original as well)
        sc.save(fn, base)
        rb = sc.load(fn)
        os.remove(fn)
        records.append(dict(id=rid, kind="same", a=DG.result_digest(base), b=DG.result_digest(rb)))
        index[rid] = dict(label=lab("binary result save / load"))
        rid += 1
        # ... and what the loaded result answers to queries by name (a parameter may drive several links)
        records.append(dict(id=rid, kind="same", a=dg(byname0), b=dg(byname(rb))))
        index[rid] = dict(label=lab("binary result save / load: flows requested by parameter name"))
        rid += 1
        records.append(dict(id=rid, kind="same", a=dg(byname0), b=dg(byname(base))))
        index[rid] = dict(label=lab("the saved result itself still answers flows by parameter name as before"))
        rid += 1
        records.append(dict(id=rid, kind="same", a=dg(byname0), b=dg(byname0)))
        index[rid] = dict(label=lab("binary result save / load: flows requested by parameter name"))
        rid += 1
    # ================= populations with arbitrary code names (here the ones a spreadsheet reader likes to take for missing values): the
    # calibration written for such a parameter set is read back
    try:
        import atomica

        Fna = at.ProjectFramework("%s/sir_framework.xlsx" % atomica.LIBRARY_PATH)
        Dna = at.ProjectData.new(Fna, np.arange(2000, 2003), sc.odict([("NA", "Pop NA"), ("null", "Pop null")]), sc.odict([("mig", "Migration")]))
        for nm_, tdve in Dna.tdve.items():
            for pop_, ts in tdve.ts.items():
                if not ts.has_data:
                    ts.assumption = 100.0 if nm_ in ("sus", "ch_all") else (10.0 if nm_ == "inf" else 0.1)
        for tdc in Dna.transfers:
            for k_ in (("NA", "null"), ("null", "NA")):
                tdc.ts[k_] = at.TimeSeries(assumption=0.01, units="probability")
        Dna = at.ProjectData.from_spreadsheet(Dna.to_spreadsheet(), Fna)
        psa = at.ParameterSet(Fna, Dna)
        psa.transfers["mig"]["NA"].y_factor["null"] = 3.0
        first_ = [n_ for n_ in psa.pars.keys() if "NA" in psa.pars[n_].y_factor][0]
        psa.pars[first_].y_factor["NA"] = 1.75
        psa.pars[first_].meta_y_factor = 0.5
        psb = at.ParameterSet(Fna, Dna)
        psb.load_calibration(psa.calibration_spreadsheet())
        records.append(dict(id=rid, kind="same", a=dg(parset_content(psa)), b=dg(parset_content(psb))))
        index[rid] = dict(label=dict(model="sir with populations 'NA' and 'null'", what="calibration round trip (population names that read like missing values)"))
        rid += 1
    except Exception as ex:
        V.violation("C16 calibration round trip with populations 'NA' / 'null' raised %s" % type(ex).__name__, dict(error=str(ex)[:300]))
    # ================= transfers and interactions of a library databook whose tables carry no uncertainty column: an uncertainty entered on the
    # object is content like any other (it is written and read back)
    try:
        import atomica

        Ftb = at.ProjectFramework("%s/tb_framework.xlsx" % atomica.LIBRARY_PATH)
        Dtb = at.ProjectData.from_spreadsheet("%s/tb_databook.xlsx" % atomica.LIBRARY_PATH, Ftb)
        for coll in (Dtb.transfers, Dtb.interpops):
            if coll:
                k0 = list(coll[0].ts.keys())[0]
                coll[0].ts[k0].sigma = 0.25
        Dtb2 = at.ProjectData.from_spreadsheet(Dtb.to_spreadsheet(), Ftb)
        for key in ("transfers", "interactions"):
            records.append(dict(id=rid, kind="same", a=dg(data_content(Dtb)[key]), b=dg(data_content(Dtb2)[key])))
            index[rid] = dict(label=dict(model="tb", what="databook round trip of %s after an uncertainty was entered on the object" % key))
            rid += 1
    except Exception as ex:
        V.violation("C16 databook round trip (tb, uncertainty on a transfer) raised %s" % type(ex).__name__, dict(model="tb", error=str(ex)[:300]))
    # ================= reconciliation is one of the editing operations: the reconciled program set simulates like the program set rebuilt from
    # its own exported program book (its visible content - baselines, outcomes, unit costs - is all there is)
    for name in (["udt"] + (["tb_simple", "hiv"] if thorough else [])):
        P = at.demo(name, do_run=False)
        ps, pg = P.parsets[0], P.progsets[0]
        year = float(P.settings.sim_start + 2)
        lab = lambda what: dict(model=name, what=what)
        try:
            book_years = [float(y) for y in pg.tvec]
            off_book = [y for y in (year + 0.5, year + 1.5, year + 2.5) if y not in book_years][0]
            for what_, yr_, kw_ in (("all bounds", year, dict(baseline_bounds=0.3, outcome_bounds=0.3, unit_cost_bounds=0.2)), ("baseline bounds only", year, dict(baseline_bounds=0.3)),
                                    ("a year that is not a column of the program book", off_book, dict(unit_cost_bounds=0.2))):
                lab = lambda what, what_=what_: dict(model=name, what=what, reconciliation=what_)
                np.random.seed(C.seed())
                pr = at.reconcile(P, ps, pg, yr_, max_time=4, **kw_)[0]
                pr2 = at.ProgramSet.from_spreadsheet(pr.to_spreadsheet(), framework=P.framework, data=P.data)
                ins_r = at.ProgramInstructions(start_year=yr_)
                records.append(dict(id=rid, kind="same", a=dg(progset_content(pr)), b=dg(progset_content(pr2))))
                index[rid] = dict(label=lab("reconciled program set vs rebuilt from its own export (visible content)"))
                rid += 1
                rid = close_records(records, index, rid, lab("simulation with the reconciled program set vs the one rebuilt from its export"), P.run_sim(ps, pr, ins_r, store_results=False), P.run_sim(ps, pr2, ins_r, store_results=False))
        except Exception as ex:
            V.violation("C16 reconcile / export / import raised %s" % type(ex).__name__, dict(model=name, error=str(ex)[:300]))
    # ================= framework round trips of library frameworks with structure the three above lack: two parameters in one
    # transition cell (combined), durations / timed compartments (sir), junctions and several population types (the rest)
    for name in (["combined", "sir"] + (["usdt", "hypertension", "diabetes", "cervicalcancer", "tb"] if thorough else [])):
        try:
            P = at.demo(name, do_run=False)
        except Exception as ex:
            V.note_drift("library model %s could not be loaded for the framework round trip: %s" % (name, str(ex)[:120]))
            continue
        lab = lambda what: dict(model=name, what=what)
        P.settings.update_time_vector(end=float(P.settings.sim_start) + 5)
        F2 = at.ProjectFramework(P.framework.to_spreadsheet())
        F3 = at.ProjectFramework(F2.to_spreadsheet())
        records.append(dict(id=rid, kind="same", a=dg(framework_content(P.framework)), b=dg(framework_content(F2))))
        index[rid] = dict(label=lab("framework round trip (sheet contents)"))
        rid += 1
        records.append(dict(id=rid, kind="same", a=dg(framework_content(F2)), b=dg(framework_content(F3))))
        index[rid] = dict(label=lab("second framework round trip"))
        rid += 1
        links = lambda F_: str(sorted((k, sorted(v)) for k, v in F_.transitions.items()))
        records.append(dict(id=rid, kind="same", a=links(P.framework), b=links(F2)))
        index[rid] = dict(label=lab("framework round trip (transitions per parameter)"))
        rid += 1
        rid = close_records(records, index, rid, lab("simulation with the re-imported framework"), at.run_model(P.settings, F2, at.ParameterSet(F2, P.data)), at.run_model(P.settings, P.framework, at.ParameterSet(P.framework, P.data)))
    # ================= a generated project with two population types, cross-type interactions and a transfer
    try:
        PM, DM = multitype_project(at)
        lab = lambda what: dict(model="generated two-population-type project", what=what)
        D2 = at.ProjectData.from_spreadsheet(DM.to_spreadsheet(), PM.framework)
        D3 = at.ProjectData.from_spreadsheet(D2.to_spreadsheet(), PM.framework)
        records.append(dict(id=rid, kind="same", a=dg(data_content(DM)), b=dg(data_content(D2))))
        index[rid] = dict(label=lab("databook round trip (visible content)"))
        rid += 1
        records.append(dict(id=rid, kind="same", a=dg(data_content(D2)), b=dg(data_content(D3))))
        index[rid] = dict(label=lab("second databook round trip"))
        rid += 1
        types = lambda D_: sorted((t.code_name, t.from_pop_type, t.to_pop_type, tuple(t.from_pops), tuple(t.to_pops)) for t in list(D_.transfers) + list(D_.interpops))
        records.append(dict(id=rid, kind="same", a=str(types(DM)), b=str(types(D2))))
        index[rid] = dict(label=lab("population types of transfers and interactions after a databook round trip"))
        rid += 1
        rid = close_records(records, index, rid, lab("simulation from the re-imported databook"), at.run_model(PM.settings, PM.framework, at.ParameterSet(PM.framework, D2)), at.run_model(PM.settings, PM.framework, at.ParameterSet(PM.framework, DM)))
        # add a population to freshly created data (not yet through a spreadsheet) and round trip
        D7 = sc.dcp(DM)
        D7.add_pop("extra2", "More hosts", "host")
        D8 = at.ProjectData.from_spreadsheet(D7.to_spreadsheet(), PM.framework)
        records.append(dict(id=rid, kind="same", a=dg(data_content(D7)), b=dg(data_content(D8))))
        index[rid] = dict(label=lab("ProjectData.new, add_pop, databook round trip"), before=str(data_content(D7)["transfers"])[:300], after=str(data_content(D8)["transfers"])[:300])
        rid += 1
        # history on the data: add a population, export / import, remove it again
        D4 = sc.dcp(D2)
        D4.add_pop("extra", "Extra hosts", "host")
        D5 = at.ProjectData.from_spreadsheet(D4.to_spreadsheet(), PM.framework)
        records.append(dict(id=rid, kind="same", a=dg(data_content(D4)), b=dg(data_content(D5))))
        index[rid] = dict(label=lab("databook round trip after add_pop"))
        rid += 1
        D5.remove_pop("extra")
        D6 = at.ProjectData.from_spreadsheet(D5.to_spreadsheet(), PM.framework)
        records.append(dict(id=rid, kind="same", a=dg(data_content(D6)), b=dg(data_content(D2))))
        index[rid] = dict(label=lab("add_pop, round trip, remove_pop, round trip returns to the original content"))
        rid += 1
    except Exception as ex:
        V.violation("C16 generated two-population-type project raised %s" % type(ex).__name__, dict(error=str(ex)[:400]))
    bad, states = C.validate_batch(["Big", "BooksTrace"], "BooksTrace", records, ndjson=True, timeout=3000)
    cov["states"] += states
    cov["transitions"] += states
    cov["traces_validated_against_impl"] = len(records)
    for rid_, clause in bad:
        d = index[rid_]
        lab_ = d["label"]
        if "history" in lab_:
            ops = [o[0] for o in lab_["history"]]
            V.violation("C16 %s %s after %s" % (clause, d["what"].split(" after")[0], ops[-1] if clause == "Content" else "+".join(sorted(set(ops)))), dict(clause=clause, **d))
        else:
            V.violation("C16 %s %s" % (clause, lab_["what"]), dict(clause=clause, **d))
    cov["samples"] = [index[0], index[len(index) - 1]]
    return V, cov, time.time() - t0
