"""Run-time observation of the real atomica Model (no source changes): wrappers around Model.update_links capture
the per-link conversion cache and the per-row cached outflows at every time index; `record_run` turns a finished
run into the NDJSON trace format of spec/EngineTrace.tla (numbers as exact limb sequences)."""
import json
import math
from fractions import Fraction as Fr

import numpy as np

from . import fix as FX


class MissingTarget(Exception):
    pass


class LinkObserver:
    """Context manager: while active, every Model.update_links call appends {ti: (cache per link, outc per comp)}
    to model._verif_obs (a plain dict on the instance)."""

    def __enter__(self):
        import atomica.model as M

        if not hasattr(M.Model, "update_links"):
            raise MissingTarget("atomica.model.Model.update_links")
        self.M = M
        self.orig = M.Model.update_links
        orig = self.orig

        def wrapped(model):
            orig(model)
            ti = model._t_index
            store = model.__dict__.setdefault("_verif_obs", {})
            ca, oc = {}, {}
            for pop in model.pops:
                for l in pop.links:
                    ca[id(l)] = l._cache
                for c in pop.comps:
                    v = c._cached_outflow
                    oc[id(c)] = None if v is None else (np.array(v, dtype=float).copy() if np.ndim(v) else float(v))
            store[ti] = (ca, oc)

        M.Model.update_links = wrapped
        return self

    def __exit__(self, *a):
        self.M.Model.update_links = self.orig


KIND = {"Compartment": "normal", "SourceCompartment": "source", "SinkCompartment": "sink", "JunctionCompartment": "junction",
        "ResidualJunctionCompartment": "resjunction", "TimedCompartment": "timed"}


def model_header(model, wid="run"):
    """Structure of a built Model in the header format of EngineTrace."""
    comps = [c for p in model.pops for c in p.comps]
    links = [l for p in model.pops for l in p.links]
    cidx = {id(c): i + 1 for i, c in enumerate(comps)}
    pars = []
    pidx = {}
    for l in links:
        if l.parameter is not None and id(l.parameter) not in pidx:
            pidx[id(l.parameter)] = len(pars) + 1
            pars.append(l.parameter)
    kinds = []
    for c in comps:
        k = KIND.get(type(c).__name__)
        if k is None:
            raise MissingTarget("unknown compartment class %s" % type(c).__name__)
        kinds.append(k)
    rows, dur = [], []
    for c, k in zip(comps, kinds):
        if k == "timed":
            rows.append(int(c._vals.shape[0]))
            p = c.parameter
            dur.append(FX.fix(float(p.vals[0]) * float(p.timescale)))  # the duration in force: parameter value (data x factors) x timescale
        else:
            rows.append(1)
            dur.append(FX.fix(0.0))
    hdr = dict(ev="hdr", id=wid, dt=FX.fix(model.dt), kind=kinds, rows=rows, dur=dur, grp=[0 for _ in comps],
               lsrc=[cidx[id(l.source)] for l in links], ldst=[cidx[id(l.dest)] for l in links],
               lpar=[pidx[id(l.parameter)] if l.parameter is not None else 0 for l in links],
               ltimed=[getattr(l, "_vals", None) is not None for l in links],
               lflush=[getattr(l.source, "flush_link", None) is l for l in links],
               units=[str(p.units).lower() for p in pars], tscale=[FX.fix(p.timescale if p.timescale is not None and not (isinstance(p.timescale, float) and math.isnan(p.timescale)) else 1.0) for p in pars],
               names=dict(comps=["%s/%s" % (c.pop.name, c.name) for c in comps], links=["%s/%s->%s/%s:%s" % (l.source.pop.name, l.source.name, l.dest.pop.name, l.dest.name, l.parameter.name if l.parameter is not None else "-") for l in links],
                          pars=["%s/%s" % (p.pop.name, p.name) for p in pars]))
    return hdr, comps, links, pars


def world_header(model, w):
    """Header from the *specification's* view of the structure (world w); the model's arrays are mapped onto it, so a
    model that wires a link differently from the specification is judged against the specification, not against itself."""
    from . import worlds as WD

    comps = [model.get_pop(c["pop"]).get_comp(c["base"]) for c in w["comps"]]
    links = [WD.find_link(model, w, l) for l in w["links"]]
    cidx = {c["name"]: i + 1 for i, c in enumerate(w["comps"])}
    pidx = {p["name"]: i + 1 for i, p in enumerate(w["pars"])}
    class _Pseudo:  # the environment's choices that are not model parameters: program capacities (people / year) and the gate
        def __init__(self, vals):
            self.vals = np.asarray(vals, dtype=float)

    def par_of(p):
        if p.get("pseudo") == "gate":
            ins = model.program_instructions
            return _Pseudo([1.0 if (ins is not None and ins.start_year <= t <= ins.stop_year) else 0.0 for t in model.t])
        if p.get("pseudo") == "cap":
            return _Pseudo(model.program_instructions.capacity[p["prog"]].interpolate(model.t, method="previous"))
        return model.get_pop(p["pop"]).get_par(p["base"])

    pars = [par_of(p) for p in w["pars"]]
    hdr = dict(ev="hdr", id=w["id"], dt=FX.fix(float(w["dt"])), kind=[c["kind"] for c in w["comps"]], rows=[c["rows"] for c in w["comps"]],
               dur=[FX.fix(float(c["D"] or 0)) for c in w["comps"]], grp=[c["grp"] for c in w["comps"]],
               lsrc=[cidx[l["src"]] for l in w["links"]], ldst=[cidx[l["dst"]] for l in w["links"]],
               lpar=[0 if (l["par"] == ">" or l["flush"]) else pidx[l["par"]] for l in w["links"]],
               ltimed=[bool(l["timed"]) for l in w["links"]], lflush=[bool(l["flush"]) for l in w["links"]],
               units=[p["units"] or "none" for p in w["pars"]], tscale=[FX.fix(float(p["T"] or 1)) for p in w["pars"]])
    return hdr, comps, links, pars


def _rows(x, k):
    v = getattr(x, "_vals", None)
    return v[:, k] if v is not None else np.array([x.vals[k]])


def record_run(model, path, wid="run", steps=None, corrupt=None, world=None, init=None, dbtot=None):
    """Write the NDJSON trace of a processed model. steps: iterable of time indices (default all).
    corrupt: optional callable(event_dict_of_floats) used by the negative controls."""
    hdr, comps, links, pars = world_header(model, world) if world is not None else model_header(model, wid)
    obs = model.__dict__.get("_verif_obs", {})
    T = len(model.t)
    n = 0
    with open(path, "w") as f:
        f.write(json.dumps(hdr) + "\n")
        for k in (steps if steps is not None else range(T - 1)):
            if k >= T - 1:
                continue
            ca, oc = obs.get(k, ({}, {}))
            ev = dict(ti=k, first=(k == (steps[0] if steps is not None else 0)), consecutive=(steps is None or k == 0 or (k - 1) in steps),
                      pv=[float(p.vals[k]) for p in pars],
                      st=[[float(y) for y in _rows(c, k)] for c in comps],
                      fl=[[float(y) for y in _rows(l, k)] for l in links],
                      nx=[[float(y) for y in _rows(c, k + 1)] for c in comps],
                      ca=[ca.get(id(l)) for l in links],
                      outc=[oc.get(id(c)) for c in comps],
                      init=(init if (init is not None and k == 0) else None), dbtot=(dbtot if k == 0 else None))
            if corrupt:
                corrupt(ev)
            f.write(json.dumps(encode_event(ev)) + "\n")
            n += 1
    return n


def encode_event(ev):
    nonfinite = []

    def fx(v, where):
        try:
            return FX.fix(v)
        except FX.NonFinite:
            nonfinite.append(where)
            return {"s": 0, "m": []}

    out = dict(ev="step", ti=ev["ti"], first=ev["first"])
    out["pv"] = [fx(v, "pv%d" % i) for i, v in enumerate(ev["pv"])]
    for key in ("st", "fl", "nx"):
        out[key] = [[fx(v, "%s%d" % (key, i)) for v in rows] for i, rows in enumerate(ev[key])]
    out["ca"] = [{"s": -1, "m": []} if v is None else fx(v, "ca%d" % i) for i, v in enumerate(ev["ca"])]
    oc = []
    for i, (v, st) in enumerate(zip(ev["outc"], ev["st"])):
        if v is None:
            oc.append([{"s": 0, "m": []} for _ in st])
        elif np.ndim(v):
            oc.append([fx(y, "outc%d" % i) for y in v])
        else:
            oc.append([fx(v, "outc%d" % i)])
    out["outc"] = oc
    out["init"] = [[fx(v, "init%d" % i) for v in rows] for i, rows in enumerate(ev["init"])] if ev.get("init") is not None else []
    db = ev.get("dbtot")
    out["dbhas"] = [v is not None for v in db] if db is not None else []
    out["dbtot"] = [fx(v if v is not None else 0.0, "dbtot%d" % i) for i, v in enumerate(db)] if db is not None else []
    out["nonfinite"] = nonfinite
    return out


ALL_CLAUSES = ["Balance", "JunctionPass", "Global", "NonNeg", "Finite", "NoOverdraw", "Ratio", "NegZero", "ConvertRel", "ResolveRel",
               "JEmpty", "JSplit", "FlushConserves", "Rows", "ShiftRel", "FlushAll", "Bound", "NotEarly", "InitSpread"]
CLAUSES = {
    "C01": ["Balance", "JunctionPass", "Global", "FlushConserves"],
    "C02": ["NonNeg", "Finite", "NoOverdraw", "Ratio", "NegZero"],
    "C03": ["ConvertRel", "ResolveRel", "Balance"],  # (the stock update is part of "every compartment trajectory")
    "C04": ["JEmpty", "JSplit", "JunctionPass", "FlushConserves"],
    "C05": ["Rows", "ShiftRel", "FlushAll", "Bound", "NotEarly", "InitSpread"],
}


def trace_cfg(clauses):
    return "SPECIFICATION Spec\nCONSTANT ClauseSet = {%s}\nINVARIANT Verdict\nPOSTCONDITION Consumed\nCHECK_DEADLOCK FALSE\n" % ",".join('"%s"' % c for c in clauses)
