"""C19: parse_function against spec/FuncParse.tla (syntax classification and exact evaluation)."""
import os
import shutil
import tempfile
import time
from fractions import Fraction as Fr

import numpy as np

from . import common as C
from . import fix as FX

BAD = {
    "call_unlisted": "foo({c})", "call_open": "open({c})", "call_eval": "eval({c})", "call_getattr": "getattr({c}, 'real')",
    "method": "({c}).tofile('p')", "method_noarg": "({c}).conjugate()", "attr": "({c}).real", "attr_T": "({c}).T",
    "call_of_call": "exp({c})(1)", "call_of_lambda": "(lambda: {c})()", "call_of_attr": "({c}).real(1)",
    "lambda0": "(lambda: {c})", "lambda1": "(lambda z: z + {c})", "listcomp": "[z for z in ({c}, 1)]", "setcomp": "{{z for z in ({c}, 1)}}",
    "dictcomp": "{{z: 1 for z in ({c}, 1)}}", "genexp": "max((z for z in ({c}, 1)), 1)", "walrus": "(w := {c})",
    "dunder_call": "__import__({c})", "dunder_attr": "({c}).__class__", "dunder_name": "(__name__)",
    # U+FF3F is folded to "_" when Python reads an identifier: the name below is __builtins__, though the text holds no double underscore
    "dunder_fullwidth": "max({c}, _\uff3fbuiltins_\uff3f)", "call_keyword": "exp({c}, out=x)", "call_starred": "max(*({c}, 1))",
}


def render(t, spaced=False):
    k = t[0]
    sp = " " if spaced else ""
    if k == "num":
        v = t[1]
        if isinstance(v, list):
            f = Fr(v[0], v[1])
            return repr(float(f)) if f.denominator != 1 else str(f.numerator)
        return v
    if k == "name":
        return t[1]
    if k == "neg":
        return "(-%s)" % render(t[1], spaced)
    if k == "pos":
        return "(+%s)" % render(t[1], spaced)
    if k in ("bin", "cmp"):
        return "(%s%s%s%s%s)" % (render(t[2], spaced), " " if (spaced or k == "cmp") else "", t[1], " " if (spaced or k == "cmp") else "", render(t[3], spaced))
    if k == "call1":
        return "%s(%s)" % (t[1], render(t[2], spaced))
    if k == "call2":
        return "%s(%s,%s%s)" % (t[1], render(t[2], spaced), sp, render(t[3], spaced))
    if k == "bad":
        s = BAD[t[1]].format(c=render(t[2], spaced))
        if spaced:
            s = s.replace("lambda:", "lambda :").replace("lambda z:", "lambda z :").replace("z: 1", "z : 1")
        return s
    raise ValueError(k)


PLOTBAD = {"call": "open('plotpwn','w').name", "name": "x", "num": "1", "binop": "('a'+'b')", "attr": "'a'.upper", "lambda": "(lambda: 'a')", "comp": "[c for c in 'ab']",
           "tuple": "('a','b')", "set": "{'a'}", "fstr": "f'a'", "bytes": "b'a'", "ifexp": "('a' if 'b' else 'c')", "none": "None", "subscript": "'ab'[0]"}


def render_plot(t, n=[0]):
    k = t[0]
    if k == "str":
        n[0] += 1
        return "'s%d:flow'" % n[0]
    if k == "bad":
        return PLOTBAD[t[1]]
    if k == "list":
        return "[%s]" % ", ".join(render_plot(x) for x in t[1])
    if k == "dict":
        return "{%s}" % ", ".join("%s: %s" % (render_plot(a), render_plot(b)) for a, b in zip(t[1], t[2]))
    raise ValueError(k)


def try_plot_string(s, workdir):
    """evaluate_plot_string on s: accepted (and equal to the literal it denotes) / rejected, and whether anything happened on the way."""
    import ast

    from atomica.utils import evaluate_plot_string

    before = set(os.listdir(workdir))
    try:
        v = evaluate_plot_string(s)
        out = "accepted"
        try:
            if v != ast.literal_eval(s):
                out = "accepted with another value"
        except Exception:
            pass
    except Exception:
        out = "rejected"
    sidefx = set(os.listdir(workdir)) != before
    for f in set(os.listdir(workdir)) - before:
        try:
            os.remove(os.path.join(workdir, f))
        except OSError:
            pass
    return out, sidefx


def try_parse(s, workdir):
    from atomica.function_parser import parse_function

    before = set(os.listdir(workdir))
    try:
        parse_function(s)
        out = "accepted"
    except Exception:
        out = "rejected"
    return out, set(os.listdir(workdir)) != before


def run(prop, tier):
    t0 = time.time()
    at = C.quiet_atomica()
    from atomica.function_parser import parse_function, supported_functions

    V = C.Verdict(prop)
    thorough = tier == "thorough"
    cfg = lambda part, depth, inv: "SPECIFICATION Spec\nCONSTANTS\n  Depth = %d\n  Part = \"%s\"\n  EnvVals <- MCEnvVals\nINVARIANT %s\nCHECK_DEADLOCK FALSE\n" % (depth, part, inv)
    r1, syn = C.enumerate_cases(["Rat", "FuncParse", "MCFuncParse"], "MCFuncParse", cfg("syntax", 4 if thorough else 3, "SynInv"), timeout=3000)
    r2, ev = C.enumerate_cases(["Rat", "FuncParse", "MCFuncParse"], "MCFuncParse", cfg("eval", 2, "EvInv"), timeout=3000)
    r3, plots = C.enumerate_cases(["PlotString", "MCPlotString"], "MCPlotString", "SPECIFICATION Spec\nCONSTANTS\n  Depth = %d\n  BadKinds <- MCBad\nINVARIANT NoHidingPlace\nCHECK_DEADLOCK FALSE\n" % (3 if thorough else 2), timeout=3000)
    cov = dict(states=r1.distinct + r2.distinct + r3.distinct, transitions=r1.generated + r2.generated + r3.generated, traces_validated_against_impl=0, samples=[], exhaustive=True,
               syntax_trees=len(syn), eval_trees=len(ev), plot_string_trees=len(plots))
    wd = tempfile.mkdtemp(prefix="c19-", dir=C.scratch())
    cwd = os.getcwd()
    os.chdir(wd)
    whitelist0 = dict(supported_functions)
    records, index = [], {}
    rid = 0
    try:
        for c in syn:
            for spaced in (False, True):
                s = render(c["tree"], spaced)
                if len(s) >= 1800:
                    continue
                outcome, sidefx = try_parse(s, wd)
                if dict(supported_functions) != whitelist0:
                    sidefx = True
                    supported_functions.clear()
                    supported_functions.update(whitelist0)
                records.append(dict(id=rid, kind="syn", **{"class": c["class"]}, outcome=outcome, sidefx=sidefx))
                index[rid] = dict(string=s, cls=c["class"], outcome=outcome, tree=c["tree"])
                rid += 1
        # the second entry point: plot specifications (lists / dicts of strings only, in every position and at every depth)
        for c in plots:
            ps_ = render_plot(c["tree"])
            outcome, sidefx = try_plot_string(ps_, wd)
            records.append(dict(id=rid, kind="syn", **{"class": c["class"]}, outcome=outcome, sidefx=sidefx))
            index[rid] = dict(string=ps_, cls=c["class"], outcome=outcome, tree=c["tree"], entry="evaluate_plot_string")
            rid += 1
        # the guards must not depend on how the interpreter was started: the same strings under `python -O` (which strips assert statements)
        import json as _json
        import subprocess
        import sys as _sys

        ostrings = [["fn", tmpl.format(c="x")] for tmpl in BAD.values()] + [["plot", "[%s]" % b_] for b_ in PLOTBAD.values()] + [["plot", "{%s: 's'}" % PLOTBAD["call"]]]
        code = ("import sys, json\nfrom atomica.function_parser import parse_function\nfrom atomica.utils import evaluate_plot_string\nout = []\n"
                "for kind, s in json.load(sys.stdin):\n    try:\n        (parse_function if kind == 'fn' else evaluate_plot_string)(s)\n        out.append('accepted')\n"
                "    except Exception:\n        out.append('rejected')\nprint('RESULT ' + json.dumps(out))\n")
        before_ = set(os.listdir(wd))
        p_ = subprocess.run([_sys.executable, "-O", "-c", code], input=_json.dumps(ostrings), cwd=wd, env=dict(os.environ, PYTHONPATH=C.REPO, MPLBACKEND="agg"), stdout=subprocess.PIPE, stderr=subprocess.STDOUT, text=True, timeout=600)
        lines_ = [l for l in p_.stdout.splitlines() if l.startswith("RESULT ")]
        if not lines_:
            raise C.MachineryError("python -O probe failed:\n" + p_.stdout[-1500:])
        sidefx_ = set(os.listdir(wd)) != before_
        for f_ in set(os.listdir(wd)) - before_:
            os.remove(os.path.join(wd, f_))
        for (kind_, str_), outcome in zip(ostrings, _json.loads(lines_[-1][7:])):
            records.append(dict(id=rid, kind="syn", **{"class": "reject"}, outcome=outcome, sidefx=bool(sidefx_ and outcome == "accepted")))
            index[rid] = dict(string=str_, cls="reject", outcome=outcome, entry="%s under python -O" % ("parse_function" if kind_ == "fn" else "evaluate_plot_string"), tree=["bad", "python -O"])
            rid += 1

        # every arithmetic tree as it is, and with the variable x renamed to t (the name of the time variable: to the parser a name like any
        # other - it is a dependency and is looked up in what the caller supplies)
        ev2 = []
        for k_, c in enumerate(ev):
            ev2.append((c, {"x": "x", "y": "y"}))
            if k_ % 3 == 0 and "x" in c["deps"]:
                ev2.append((dict(c, tree=_json.loads(_json.dumps(c["tree"]).replace('["name", "x"]', '["name", "t"]')), deps=[("t" if d_ == "x" else d_) for d_ in c["deps"]]), {"x": "t", "y": "y"}))
        for c, nm in ev2:
            s = render(c["tree"])
            try:
                fcn, deps = parse_function(s)
            except Exception as ex:
                records.append(dict(id=rid, kind="syn", **{"class": "accept"}, outcome="rejected", sidefx=False))
                index[rid] = dict(string=s, cls="accept", outcome="rejected: %s" % ex)
                rid += 1
                continue
            xs = np.array([float(Fr(*v["x"])) for v in c["vals"]])
            ys = np.array([float(Fr(*v["y"])) for v in c["vals"]])
            need = set(deps)
            try:
                with np.errstate(all="ignore"):
                    arr = fcn(**{k: v for k, v in ((nm["x"], xs), ("y", ys)) if k in need})
                arr = np.broadcast_to(np.asarray(arr, dtype=float), xs.shape)
            except Exception:
                arr = np.full(xs.shape, np.nan)
            vals = []
            for k, v in enumerate(c["vals"]):
                ok = True
                try:
                    with np.errstate(all="ignore"):
                        o = float(fcn(**{n: val for n, val in ((nm["x"], xs[k]), ("y", ys[k])) if n in need}))
                except Exception:
                    ok, o = False, 0.0
                if not np.isfinite(o):
                    ok, o = False, 0.0
                oa = float(arr[k]) if np.isfinite(arr[k]) else (1e300 if ok else 0.0)
                vals.append(dict(v=v["v"], ok=ok, o=FX.fix(o), oa=FX.fix(oa)))
            records.append(dict(id=rid, kind="ev", deps=sorted(c["deps"]), odeps=sorted(set(deps)), vals=vals))
            index[rid] = dict(string=s, deps=c["deps"], observed_deps=deps)
            rid += 1
            # DivScaleFree on the real code: quotients of two names, both scaled by 2^-k (an exact operation in binary floating point)
            t = c["tree"]
            if (t[0] == "bin" and t[1] == "/" or t[0] == "call2" and t[1] == "sdiv") and t[2][0] == "name" and t[3][0] == "name" and set(deps) == set(c["deps"]):
                for k_ in (20, 30, 40, 200):
                    sc_ = 2.0 ** -k_
                    with np.errstate(all="ignore"):
                        a_ = np.asarray(fcn(**{n: val for n, val in ((nm["x"], xs), ("y", ys)) if n in need}), dtype=float)
                        b_ = np.asarray(fcn(**{n: val * sc_ for n, val in ((nm["x"], xs), ("y", ys)) if n in need}), dtype=float)
                        b1 = [float(fcn(**{n: float(val[j]) * sc_ for n, val in ((nm["x"], xs), ("y", ys)) if n in need})) for j in range(len(xs))]
                    fin = np.isfinite(a_)
                    for what, bb in (("array", b_), ("scalar", np.array(b1))):
                        records.append(dict(id=rid, kind="scale", a=FX.fixseq(np.broadcast_to(a_, xs.shape)[fin]), b=FX.fixseq(np.where(np.isfinite(np.broadcast_to(bb, xs.shape)), np.broadcast_to(bb, xs.shape), 1e300)[fin])))
                        index[rid] = dict(string=s, scale="2^-%d (%s arguments)" % (k_, what), at_env=[float(v) for v in np.broadcast_to(a_, xs.shape)[fin]][:6], scaled=[float(v) for v in np.broadcast_to(bb, xs.shape)[fin]][:6])
                        rid += 1
    finally:
        os.chdir(cwd)
        shutil.rmtree(wd, ignore_errors=True)
    bad, states = C.validate_batch(["Rat", "Big", "FuncParseTrace"], "FuncParseTrace", records, timeout=3000)
    cov["states"] += states
    cov["transitions"] += states
    cov["traces_validated_against_impl"] = len(records)
    for rid_, clause in bad:
        c = index[rid_]
        kind = c["tree"][1] if c.get("tree") and c["tree"][0] == "bad" else (find_bad(c["tree"]) if c.get("tree") else "arith")
        V.violation("C19 %s %s" % (clause, kind), dict(clause=clause, **{k: v for k, v in c.items() if k != "tree"}))
    cov["samples"] = [index[0], index[len(index) // 2], index[len(index) - 1]]
    return V, cov, time.time() - t0


def find_bad(t):
    if not isinstance(t, list):
        return None
    if t and t[0] == "bad":
        return t[1]
    for x in t[1:]:
        r = find_bad(x)
        if r:
            return r
    return None
