"""World catalogue: the single source of the TLA+ constants (module Worlds) and of the atomica objects.

A *structure* describes one population's compartments, parameters and transitions (what a framework file
says); `expand` turns it into a flat *world* over one or more populations with transfer links, which is what
both the specification (as a record of sequences) and the materialiser consume.
"""
import io
import itertools
import math
from fractions import Fraction as Fr

import numpy as np

KINDS = ("normal", "source", "sink", "junction", "resjunction", "timed")


def F(n, d=1):
    return Fr(n, d)


# ------------------------------------------------------------------------------------------------ structures
def struct(id, comps, pars, links, dt, stock, pops=("p0",), transfers=(), popvals=None, durs=None, jinit=None, glob=True, characs=(), interactions=None, programs=None, effects=None, gate=(0, 1), maxK=6):
    """comps: [(name, kind[, group])]; pars: [(name, units, T, dom[, timed])]; links: [(src, dst, par|'>')]
    stock: {comp: [values] or [[rows]...] (timed; rows must match)}; transfers: [(name, src_pop, dst_pop, units, dom)]
    popvals: {pop: {par: dom}} overrides; durs: {pop: {group: Fraction}} durations (timed parameter value, constant)
    """
    return dict(id=id, comps=comps, pars=pars, links=links, dt=Fr(dt), stock=stock, pops=list(pops), transfers=list(transfers),
                popvals=popvals or {}, durs=durs or {}, jinit=jinit or {}, glob=glob, characs=list(characs), interactions=interactions or {},
                programs=programs or {}, effects=effects or {}, gate=list(gate), maxK=maxK)


def nrows(D, dt):
    return max(1, math.ceil(Fr(D) / Fr(dt)))


def expand(s, mode="r1"):
    """Flat world: names are 'pop/name'. mode r1: junctions start empty; r2: junction grids from jinit (initial flush)."""
    comps, pars, links = [], [], []
    kinds = {c[0]: c[1] for c in s["comps"]}
    groups = {c[0]: (c[2] if len(c) > 2 else None) for c in s["comps"]}
    timedpars = {p[0] for p in s["pars"] if len(p) > 4 and p[4]}
    gid = {}
    for pop in s["pops"]:
        for c in s["comps"]:
            name, kind = c[0], c[1]
            g = groups[name]
            D = s["durs"].get(pop, {}).get(g) if g else None
            if g and D is None:
                D = [p for p in s["pars"] if p[0] == g][0][3][0]
            if g:  # the duration in force is value x calibration factor x timescale (years)
                gp = [p for p in s["pars"] if p[0] == g][0]
                D = Fr(D) * Fr(gp[2]) * Fr((gp[5] if len(gp) > 5 else {}).get("y", 1))
            rows = nrows(D, s["dt"]) if g else 1
            comps.append(dict(name="%s/%s" % (pop, name), pop=pop, base=name, kind=kind, group=g, D=D, rows=rows, grp=0))
        for p in s["pars"]:
            name, units, T, dom = p[0], p[1], p[2], p[3]
            dom = s["popvals"].get(pop, {}).get(name, dom)
            if name in timedpars and s["durs"].get(pop, {}).get(name) is not None:
                dom = [s["durs"][pop][name]]
            extra = p[5] if len(p) > 5 else {}
            pars.append(dict(name="%s/%s" % (pop, name), pop=pop, base=name, units=units, T=None if T is None else Fr(T), dom=[Fr(x) for x in dom], timed=name in timedpars,
                             fn=extra.get("fn"), lim=extra.get("lim", (None, None)), y=Fr(extra.get("y", 1))))
        for (a, b, par) in s["links"]:
            flush = par in timedpars
            timed = (not flush) and groups[a] is not None and groups[a] == groups[b]
            links.append(dict(src="%s/%s" % (pop, a), dst="%s/%s" % (pop, b), par=">" if par == ">" else "%s/%s" % (pop, par), timed=timed, flush=flush))
    # programs: the environment also chooses, per step, each program's capacity (people / year, a capacity overwrite in the instructions)
    # and whether programs are active (the gate); both are carried as pseudo parameters that precede every real parameter, and a
    # parameter with an effect row reads them (pfn = <<"prog", ...>>)
    if s.get("programs"):
        pseudo = [dict(name="@gate", pop=None, base="@gate", units="gate", T=None, dom=[Fr(x) for x in s["gate"]], timed=True, fn=None, lim=(None, None), pseudo="gate")]
        for pn, pd in s["programs"].items():
            pseudo.append(dict(name="@cap/%s" % pn, pop=None, base="@cap/%s" % pn, units="cap", T=None, dom=[Fr(x) for x in pd["caps"]], timed=False, fn=None, lim=(None, None), pseudo="cap", prog=pn))
        for p_ in pars:
            eff = s["effects"].get((p_["base"], p_["pop"]))
            if eff:
                p_["effect"] = eff
        pars[:0] = pseudo
    if len(s["pops"]) > 1 and any(p.get("fn") for p in pars):
        # the library evaluates a parameter for all populations before the next parameter (cross-population aggregations rely on it)
        order_ = {p[0]: i for i, p in enumerate(s["pars"])}
        pars.sort(key=lambda p: (-1, 0) if p.get("pseudo") else (order_[p["base"]], s["pops"].index(p["pop"])))
    for (tname, a, b, units, dom) in s["transfers"]:
        pname = "%s/%s_%s_to_%s" % (a, tname, a, b)
        pars.append(dict(name=pname, pop=a, base="%s_%s_to_%s" % (tname, a, b), units=units, T=Fr(1), dom=[Fr(x) for x in dom], timed=False, transfer=(tname, a, b), fn=None, lim=(None, None)))
        for c in s["comps"]:
            if c[1] in ("normal", "timed"):
                links.append(dict(src="%s/%s" % (a, c[0]), dst="%s/%s" % (b, c[0]), par=pname, timed=groups[c[0]] is not None, flush=False))
    # cohort-timing groups (C05 temporal properties): one per (population, duration group); populations joined by
    # transfers form one group when their row counts agree (moves keep the elapsed time) and are left out (grp 0) otherwise
    for g in {c["group"] for c in comps if c["group"]}:
        members = [c for c in comps if c["group"] == g]
        if s["transfers"]:
            if len({c["rows"] for c in members}) == 1:
                gid[g] = len(gid) + 1
                for c in members:
                    c["grp"] = gid[g]
        else:
            for c in members:
                c["grp"] = gid.setdefault((c["pop"], g), len(gid) + 1)
    grid = {}
    for c in comps:
        if c["kind"] == "source":
            grid[c["name"]] = [[Fr(0)]]
        elif c["kind"] in ("junction", "resjunction"):
            g = s["jinit"].get(c["base"], [0]) if mode == "r2" else [0]
            grid[c["name"]] = [[Fr(x)] for x in g]
        else:
            g = s["stock"].get(c["name"], s["stock"].get(c["base"]))
            if c["kind"] == "timed":
                out = []
                for row in g:
                    if not isinstance(row, (list, tuple)):  # a total: spread uniformly
                        row = [Fr(row) / c["rows"]] * c["rows"]
                    if len(row) != c["rows"]:  # resample pattern to the row count
                        row = [row[i % len(row)] for i in range(c["rows"])]
                    out.append([Fr(x) for x in row])
                grid[c["name"]] = out
            else:
                grid[c["name"]] = [[Fr(x)] for x in g]
    # junction order: topological
    jn = [c["name"] for c in comps if c["kind"] in ("junction", "resjunction")]
    order, left = [], list(jn)
    while left:
        for j in left:
            if not any(l["dst"] == j and l["src"] in left for l in links):
                order.append(j)
                left.remove(j)
                break
        else:
            raise ValueError("junction cycle")
    w = dict(id=s["id"], dt=s["dt"], pops=s["pops"], comps=comps, pars=pars, links=links, grid=grid, jorder=order, struct=s)
    return w


def n_cases(w):
    a = 1
    for c in w["comps"]:
        a *= len(w["grid"][c["name"]])
    b = 1
    for p in w["pars"]:
        b *= len(p["dom"])
    return a, b


# ------------------------------------------------------------------------------------------------ TLA+ emission
def rat(x):
    x = Fr(x)
    return "<<%d,%d>>" % (x.numerator, x.denominator)


def tla_world(w):
    comps, pars, links = w["comps"], w["pars"], w["links"]
    cidx = {c["name"]: i + 1 for i, c in enumerate(comps)}
    pidx = {p["name"]: i + 1 for i, p in enumerate(pars)}
    q = lambda xs: "<<%s>>" % ",".join(xs)
    b = lambda v: "TRUE" if v else "FALSE"
    f = []
    f.append('id |-> "%s"' % w["id"])
    f.append("dt |-> %s" % rat(w["dt"]))
    f.append("kind |-> %s" % q('"%s"' % c["kind"] for c in comps))
    f.append("rows |-> %s" % q(str(c["rows"]) for c in comps))
    f.append("dur |-> %s" % q(rat(c["D"] or 0) for c in comps))
    f.append("grp |-> %s" % q(str(c["grp"]) for c in comps))
    f.append("units |-> %s" % q('"%s"' % p["units"] for p in pars))
    f.append("tscale |-> %s" % q(rat(p["T"] or 1) for p in pars))
    f.append("dom |-> %s" % q("{%s}" % ",".join(rat(v) for v in p["dom"]) for p in pars))
    f.append("lsrc |-> %s" % q(str(cidx[l["src"]]) for l in links))
    f.append("ldst |-> %s" % q(str(cidx[l["dst"]]) for l in links))
    f.append("lpar |-> %s" % q(str(0 if l["par"] == ">" else pidx[l["par"]]) for l in links))
    f.append("ltimed |-> %s" % q(b(l["timed"]) for l in links))
    f.append("lflush |-> %s" % q(b(l["flush"]) for l in links))
    f.append("grid |-> %s" % q("{%s}" % ",".join(q(rat(x) for x in row) for row in w["grid"][c["name"]]) for c in comps))
    f.append("jorder |-> %s" % q(str(cidx[j]) for j in w["jorder"]))
    f.append("glob |-> %s" % b(w["struct"].get("glob", True)))
    chars = w["struct"].get("characs", [])
    pops = w["pops"]
    # characteristics are per population: index = position in (population-major) list
    chlist = [(pop, c) for pop in pops for c in chars]
    chidx = {(pop, c[0]): i + 1 for i, (pop, c) in enumerate(chlist)}
    parbases = {p["base"] for p in pars}
    compbases = {c["base"] for c in comps}
    inter = w["struct"].get("interactions", {})

    def ref(name, pop):
        if name in parbases:
            return '<<"par", %d>>' % pidx["%s/%s" % (pop, name)]
        if name in compbases:
            return '<<"comp", %d>>' % cidx["%s/%s" % (pop, name)]
        return '<<"char", %d>>' % chidx[(pop, name)]

    def expr(e, pop):
        k = e[0]
        if k == "num":
            return '<<"num", %s>>' % rat(e[1])
        if k == "par":
            return '<<"par", %d>>' % pidx["%s/%s" % (pop, e[1])]
        if k == "comp":
            return '<<"comp", %d>>' % cidx["%s/%s" % (pop, e[1])]
        if k == "char":
            return '<<"char", %d>>' % chidx[(pop, e[1])]
        if k == "t":
            return '<<"t">>'
        if k == "agg":  # ("agg", "SRC_AVG" | "SRC_SUM" | "TGT_AVG" | "TGT_SUM", variable, interaction or None, weighting variable or None)
            _, kind, var, iname, wvar = e
            xs = q(ref(var, p_) for p_ in pops)
            wm = q(q(rat(inter[iname].get((a_, b_), 0)) for b_ in pops) for a_ in pops) if iname else "<<>>"
            cs = q(ref(wvar, p_) for p_ in pops) if wvar else "<<>>"
            return '<<"agg", "%s", %s, %s, %s, %d>>' % (kind, xs, wm, cs, pops.index(pop) + 1)
        return '<<"%s", %s, %s>>' % (k, expr(e[1], pop), expr(e[2], pop))

    def pfn(p):
        base = expr(p["fn"], p["pop"]) if p.get("fn") else '<<"env">>'
        if p.get("effect"):
            progs = w["struct"]["programs"]
            items = []
            for pn, outc in p["effect"]["progs"].items():
                tc = ",".join(str(cidx["%s/%s" % (tp, tcn)]) for tp in progs[pn]["pops"] for tcn in progs[pn]["comps"])
                items.append("<<%d, {%s}, %s>>" % (pidx["@cap/%s" % pn], tc, rat(outc)))
            return '<<"prog", %d, %s, %s, %s>>' % (pidx["@gate"], rat(p["effect"]["base"]), q(items), base)
        return base

    f.append("pfn |-> %s" % q(pfn(p) for p in pars))
    lim = lambda x: "NoLim" if x is None else rat(x)
    f.append("plim |-> %s" % q("<<%s,%s>>" % (lim(p.get("lim", (None, None))[0]), lim(p.get("lim", (None, None))[1])) for p in pars))
    f.append("chars |-> %s" % q("[parts |-> {%s}, denom |-> %d]" % (",".join(str(cidx["%s/%s" % (pop, x)]) for x in c[1]), chidx.get((pop, c[2]), 0) if c[2] else 0) for (pop, c) in chlist))
    return "[ " + ",\n  ".join(f) + " ]"


def worlds_module(worlds):
    return "---- MODULE Worlds ----\nEXTENDS Rat\nNoLim == <<0, 0>>\nWorlds == <<\n" + ",\n".join(tla_world(w) for w in worlds) + "\n>>\n====\n"


# ------------------------------------------------------------------------------------------------ catalogue
PROB = [F(0), F(1, 2), F(6)]
RATE = [F(0), F(2)]
DUR = [F(1, 8), F(4)]
NUM = [F(0), F(3), F(1000)]


def catalogue(tier="quick", mode="r1"):
    S = []
    # 1 chain with source and sink, every unit type, one parameter on two links, two parameters on one link
    S.append(struct("chain", [("src", "source"), ("a", "normal"), ("b", "normal"), ("d", "sink")],
                    [("birth", "number", 1, [0, 40]), ("r1", "probability", 1, [0, F(1, 2), 6]), ("r2", "rate", F(1, 12), [F(1, 24), -1]),
                     ("dur", "duration", 1, [F(1, 8), 2]), ("num", "number", 1, [0, 8, 1000])],
                    [("src", "a", "birth"), ("a", "b", "r1"), ("a", "d", "r2"), ("b", "a", "dur"), ("b", "d", "num"), ("a", "d", "num")],
                    F(1, 4), {"a": [0, 12, 100], "b": [0, F(25, 2)], "d": [0, 7]}))
    # 2 cycle of three with competing outflows and timescales != 1, non-dyadic dt
    S.append(struct("cycle", [("a", "normal"), ("b", "normal"), ("c", "normal")],
                    [("ab", "probability", F(1, 12), [0, F(1, 24), F(1, 2)]), ("bc", "rate", F(1, 52), [F(1, 100), 1]), ("ca", "duration", F(1, 365), [30, 3650]),
                     ("ac", "probability", 2, [F(1, 2), 40])],
                    [("a", "b", "ab"), ("b", "c", "bc"), ("c", "a", "ca"), ("a", "c", "ac")],
                    F(1, 10), {"a": [0, 100], "b": [0, 12], "c": [F(25, 2), 0]}))
    # 3 two parameters on one link + number parameter drawing from several sources, one of them empty
    S.append(struct("multi", [("a", "normal"), ("b", "normal"), ("c", "normal"), ("d", "sink")],
                    [("x", "probability", 1, [0, F(1, 2)]), ("y", "rate", 1, [F(1, 4), 6]), ("n", "number", 1, [0, 3, 40, 1000]), ("m", "number", F(1, 12), [0, 1])],
                    [("a", "b", "x"), ("a", "b", "y"), ("a", "d", "n"), ("b", "d", "n"), ("c", "d", "n"), ("c", "a", "m")],
                    F(1, 3), {"a": [0, 12, 100], "b": [0, 25], "c": [0, 1], "d": [0]}, glob=False))
    # 4 plain junction feeding a residual junction (prototype w2), proportions <1, =1, >1, some zero
    S.append(struct("junc", [("a", "normal"), ("j", "junction"), ("k", "resjunction"), ("b", "normal"), ("c", "normal"), ("d", "sink")],
                    [("r1", "probability", 1, [F(1, 2), 3]), ("p1", "proportion", None, [F(1, 4), 1]), ("p2", "proportion", None, [0, F(1, 2), F(3, 2)]),
                     ("q1", "proportion", None, [F(1, 4), F(3, 4)]), ("q2", "proportion", None, [0, F(1, 4), F(1, 2)]), ("r3", "rate", 1, [F(1, 2)])],
                    [("a", "j", "r1"), ("j", "b", "p1"), ("j", "k", "p2"), ("k", "b", "q1"), ("k", "c", "q2"), ("k", "d", ">"), ("b", "a", "r3"), ("c", "j", "r3")],
                    F(1, 2), {"a": [0, 100], "b": [0, 12], "c": [0, F(25, 2)], "d": [0]}, jinit={"j": [0, 10], "k": [0, 7]}))
    # 5 junction diamond: j -> (j1, j2) -> b/c, fan of three from j1
    S.append(struct("diamond", [("a", "normal"), ("j", "junction"), ("j1", "junction"), ("j2", "junction"), ("b", "normal"), ("c", "normal"), ("e", "normal")],
                    [("r", "rate", 1, [1, 8]), ("u1", "proportion", None, [1, 3]), ("u2", "proportion", None, [0, 1]),
                     ("v1", "proportion", None, [F(1, 2)]), ("v2", "proportion", None, [F(1, 4), 0]), ("v3", "proportion", None, [F(1, 4), 2]),
                     ("w1", "proportion", None, [1]), ("w2", "proportion", None, [1, 3]), ("back", "probability", 1, [F(1, 4)])],
                    [("a", "j", "r"), ("j", "j1", "u1"), ("j", "j2", "u2"), ("j1", "b", "v1"), ("j1", "c", "v2"), ("j1", "e", "v3"),
                     ("j2", "b", "w1"), ("j2", "c", "w2"), ("b", "a", "back"), ("c", "a", "back"), ("e", "a", "back")],
                    F(1, 4), {"a": [0, 64], "b": [0, 8], "c": [0], "e": [3]}, jinit={"j": [0, 16], "j1": [0, 4], "j2": [0]}))
    # 6 duration group: two timed compartments linked directly, ordinary outflows (prototype w3)
    S.append(struct("tgroup", [("a", "normal"), ("v", "timed", "dur"), ("w", "timed", "dur"), ("d", "sink")],
                    [("vac", "probability", 1, [0, 2]), ("dur", "duration", 1, [F(3, 4)], True), ("sw", "probability", 1, [0, 1, 5]), ("mort", "rate", 1, [F(1, 2), 6])],
                    [("a", "v", "vac"), ("v", "a", "dur"), ("w", "a", "dur"), ("v", "w", "sw"), ("v", "d", "mort"), ("w", "d", "mort")],
                    F(1, 4), {"a": [0, 100], "v": [[1, 2, 3], [0, 0, 12], [8, 0, 0]], "w": [[0, 0, 0], [4, 5, 6]], "d": [0]}))
    # 7 timed compartment alone, D/dt integer-up-to-rounding (5/12 over 1/12), no other outflow besides mortality 0
    S.append(struct("talone", [("a", "normal"), ("v", "timed", "dur"), ("d", "sink")],
                    [("vac", "probability", 1, [0, 3]), ("dur", "duration", 1, [F(5, 12)], True), ("mort", "rate", 1, [0, 2])],
                    [("a", "v", "vac"), ("v", "a", "dur"), ("v", "d", "mort")],
                    F(1, 12), {"a": [0, 100], "v": [[0, 0, 0, 0, 0], [1, 2, 3, 4, 5], [0, 0, 0, 0, 60]], "d": [0]}))
    # 8 duration shorter than the step: one row, emptied every step
    S.append(struct("tshort", [("a", "normal"), ("v", "timed", "dur"), ("d", "sink")],
                    [("vac", "probability", 1, [0, 1, 3]), ("dur", "duration", F(1, 12), [1], True), ("mort", "rate", 1, [0, 2, 30])],
                    [("a", "v", "vac"), ("v", "a", "dur"), ("v", "d", "mort")],
                    F(1, 4), {"a": [0, 100], "v": [[0], [7]], "d": [0]}))
    # 9 duration group through a junction (junction is a member of the group)
    S.append(struct("tjunc", [("a", "normal"), ("v", "timed", "dur"), ("j", "junction", "dur"), ("w", "timed", "dur"), ("x", "timed", "dur"), ("d", "sink")],
                    [("vac", "probability", 1, [0, 2]), ("dur", "duration", 1, [F(1, 2)], True), ("go", "probability", 1, [0, 1, 8]), ("go2", "probability", 1, [0, 2]),
                     ("p1", "proportion", None, [1, F(1, 2)]), ("p2", "proportion", None, [0, 1]), ("mort", "rate", 1, [0, 2])],
                    # (two timed feeders v, x of the group junction j: each feeder's recorded flow is its own)
                    [("a", "v", "vac"), ("v", "a", "dur"), ("w", "a", "dur"), ("x", "d", "dur"), ("v", "j", "go"), ("x", "j", "go2"), ("j", "w", "p1"), ("j", "x", "p2"), ("w", "d", "mort")],
                    F(1, 4), {"a": [0, 64], "v": [[1, 2], [0, 16]], "w": [[0, 0], [4, 5]], "x": [[0, 0], [2, 3]], "d": [0]}))
    # 9b a junction inside a duration group that also sends people out of the group (to an ordinary compartment and to the sink)
    S.append(struct("tjout", [("a", "normal"), ("v", "timed", "dur"), ("j", "junction", "dur"), ("w", "timed", "dur"), ("d", "sink")],
                    [("vac", "probability", 1, [0, 2]), ("dur", "duration", 1, [F(1, 2)], True), ("go", "probability", 1, [0, 1, 8]),
                     ("p1", "proportion", None, [1, F(1, 2)]), ("p2", "proportion", None, [0, 1]), ("p3", "proportion", None, [0, F(1, 2)]), ("mort", "rate", 1, [0, 2])],
                    [("a", "v", "vac"), ("v", "a", "dur"), ("w", "a", "dur"), ("v", "j", "go"), ("j", "w", "p1"), ("j", "a", "p2"), ("j", "d", "p3"), ("w", "d", "mort")],
                    F(1, 4), {"a": [0, 64], "v": [[1, 2], [0, 16]], "w": [[0, 0], [4, 5]], "d": [0]}))
    # 10 two populations with transfers both ways, timed compartments of different duration (3 and 2 rows)
    S.append(struct("xfer", [("a", "normal"), ("v", "timed", "dur"), ("d", "sink")],
                    [("vac", "probability", 1, [2]), ("dur", "duration", 1, [F(3, 4)], True), ("mort", "rate", 1, [F(1, 2), 6])],
                    [("a", "v", "vac"), ("v", "a", "dur"), ("v", "d", "mort")],
                    F(1, 4), {"p0/a": [0, 100], "p0/v": [[1, 2, 3], [0, 0, 12]], "p0/d": [0], "p1/a": [0, 10], "p1/v": [[4, 5], [0, 0]], "p1/d": [0]},
                    pops=("p0", "p1"), transfers=[("tr", "p0", "p1", "rate", [0, 1, 8]), ("tr", "p1", "p0", "rate", [0, 2])],
                    durs={"p0": {"dur": F(3, 4)}, "p1": {"dur": F(1, 2)}}, popvals={"p1": {"mort": [F(1, 2)]}}))
    # 11 two populations, plain compartments, number-type and duration-type transfers
    S.append(struct("xfer2", [("a", "normal"), ("b", "normal"), ("d", "sink")],
                    [("ab", "probability", 1, [F(1, 2), 5]), ("die", "rate", 1, [F(1, 10)])],
                    [("a", "b", "ab"), ("b", "d", "die")],
                    F(1, 2), {"p0/a": [0, 50], "p0/b": [0, 8], "p0/d": [0], "p1/a": [20], "p1/b": [0, 1], "p1/d": [0]},
                    pops=("p0", "p1"), transfers=[("age", "p0", "p1", "number", [0, 10, 500]), ("mig", "p1", "p0", "duration", [F(1, 4), 5])], glob=False))
    # 11b three populations: one transfer out of p0 entered in different units for its two destinations (a probability to p1, a number to p2)
    S.append(struct("xfer3", [("a", "normal"), ("b", "normal")],
                    [("ab", "probability", 1, [F(1, 2)])],
                    [("a", "b", "ab")],
                    F(1, 2), {"p0/a": [40], "p0/b": [0, 8], "p1/a": [20], "p1/b": [0], "p2/a": [4], "p2/b": [0]},
                    pops=("p0", "p1", "p2"), transfers=[("mv", "p0", "p1", "probability", [F(1, 4)]), ("mv", "p0", "p2", "number", [0, 24])], glob=False))
    # 12 residual junction alone, fed by a source (births split into groups), proportions sum > 1 and < 1
    S.append(struct("resj", [("src", "source"), ("k", "resjunction"), ("a", "normal"), ("b", "normal"), ("c", "normal"), ("d", "sink")],
                    [("birth", "number", F(1, 12), [0, 1]), ("q1", "proportion", None, [0, F(1, 4), F(3, 4)]), ("q2", "proportion", None, [0, F(1, 2), 1]), ("die", "probability", 1, [F(1, 2), 9])],
                    [("src", "k", "birth"), ("k", "a", "q1"), ("k", "b", "q2"), ("k", "c", ">"), ("a", "d", "die"), ("b", "d", "die"), ("c", "d", "die")],
                    F(1, 4), {"a": [0, 10], "b": [0, 3], "c": [0], "d": [0]}, jinit={"k": [0, 5]}))
    # 12a'' a plain junction all of whose proportions can be zero: with nobody entering it is idle (no flows, in particular no 0/0);
    #       with people entering the model is ill-posed (C01's domain restriction) and the case is skipped
    S.append(struct("jzero", [("a", "normal"), ("j", "junction"), ("b", "normal"), ("c", "normal")],
                    [("r", "rate", 1, [0, 1]), ("p1", "proportion", None, [F(-1, 2), 0, F(1, 2)]), ("p2", "proportion", None, [0, 1]), ("back", "probability", 1, [0, 2])],
                    [("a", "j", "r"), ("j", "b", "p1"), ("j", "c", "p2"), ("b", "a", "back"), ("c", "a", "back")],
                    F(1, 4), {"a": [0, 64], "b": [0, 8], "c": [0]}))
    # 12a' the residual outflow of a junction feeds another junction that is listed *before* it (the execution order has to come from
    #      the links, including the parameter-less residual link, not from the order on the compartments sheet)
    S.append(struct("reschain", [("a", "normal"), ("j2", "junction"), ("k", "resjunction"), ("b", "normal"), ("c", "normal"), ("d", "normal")],
                    [("r", "rate", 1, [0, 1, 8]), ("q1", "proportion", None, [F(-1, 4), 0, F(1, 4), F(3, 2)]), ("u1", "proportion", None, [F(1, 2), 1]), ("u2", "proportion", None, [0, F(3, 2)]), ("back", "probability", 1, [0, 2])],
                    [("a", "k", "r"), ("k", "b", "q1"), ("k", "j2", ">"), ("j2", "c", "u1"), ("j2", "d", "u2"), ("b", "a", "back"), ("c", "a", "back")],
                    F(1, 4), {"a": [0, 64], "b": [0, 3], "c": [0], "d": [0, 7]}, jinit={"k": [0, 16], "j2": [0, 8]}))
    # 12b D/dt non-integer (2.4 -> 3 rows) and D/dt >> 1 (24 rows)
    S.append(struct("tfrac", [("a", "normal"), ("v", "timed", "dur"), ("d", "sink")],
                    [("vac", "probability", 1, [0, 3]), ("dur", "duration", 1, [F(3, 5)], True), ("mort", "rate", 1, [0, 2])],
                    [("a", "v", "vac"), ("v", "a", "dur"), ("v", "d", "mort")],
                    F(1, 4), {"a": [0, 100], "v": [[0, 0, 0], [1, 2, 3], [0, 0, 60]], "d": [0]}))
    S.append(struct("tlong", [("a", "normal"), ("v", "timed", "dur"), ("d", "sink")],
                    [("vac", "probability", 1, [0, 3]), ("dur", "duration", F(1, 12), [24], True), ("mort", "rate", 1, [0, 2])],
                    [("a", "v", "vac"), ("v", "a", "dur"), ("v", "d", "mort")],
                    F(1, 12), {"a": [0, 100], "v": [[1, 2, 3, 4, 5, 6], [0, 0, 0, 0, 0, 60]], "d": [0]}))
    # 12c parameters computed by functions of the same-step state (compartments, characteristics with a denominator, other
    #     parameters - chain and diamond -, time), with limits that bind for some states; dependencies are clipped first
    S.append(struct("fnsir", [("sus", "normal"), ("inf", "normal"), ("rcv", "normal"), ("dead", "sink")],
                    [("beta", "probability", 1, [F(1, 2), 2, 6]),
                     ("foi", "probability", 1, [0], False, {"fn": ("mul", ("par", "beta"), ("char", "prev")), "lim": (0, F(3, 2))}),
                     ("foi2", "probability", 1, [0], False, {"fn": ("max", ("sub", ("par", "foi"), ("num", F(1, 10))), ("num", 0))}),
                     ("both", "rate", 1, [0], False, {"fn": ("add", ("par", "foi"), ("par", "foi2")), "lim": (F(1, 4), 2)}),
                     ("rec", "rate", F(1, 12), [F(1, 24), F(1, 2)]),
                     ("wane", "duration", 1, [F(1, 8), 4]),
                     ("mort", "rate", 1, [0], False, {"fn": ("div", ("comp", "inf"), ("max", ("char", "alive"), ("num", 1)))}),
                     # a function that goes negative, on a parameter with an upper limit only: no flow, never a reverse flow
                     ("rel", "probability", 1, [0], False, {"fn": ("sub", ("par", "beta"), ("num", 1)), "lim": (None, 3)})],
                    [("rcv", "inf", "rel"), ("sus", "inf", "foi"), ("sus", "rcv", "foi2"), ("inf", "rcv", "rec"), ("inf", "sus", "both"), ("rcv", "sus", "wane"), ("sus", "dead", "mort"), ("inf", "dead", "mort"), ("rcv", "dead", "mort")],
                    F(1, 4), {"sus": [0, 64], "inf": [0, 16, 32], "rcv": [0, 32], "dead": [0]},
                    characs=[("alive", ["sus", "inf", "rcv"], None), ("prev", ["inf"], "alive")], glob=False))
    # 12c' cross-population aggregations with interaction weights (SRC_POP_AVG weighted by a characteristic, TGT_POP_SUM), feeding
    #      a transition through a product: two populations, asymmetric weights incl. a zero row
    S.append(struct("aggsir", [("s", "normal"), ("i", "normal")],
                    [("beta", "probability", 1, [F(1, 2), 2]),
                     ("prev", None, None, [0], False, {"fn": ("div", ("comp", "i"), ("max", ("char", "alive"), ("num", 1)))}),
                     ("avgprev", None, None, [0], False, {"fn": ("agg", "SRC_AVG", "prev", "w", "alive")}),
                     ("foi", "probability", 1, [0], False, {"fn": ("mul", ("par", "beta"), ("par", "avgprev")), "lim": (0, 3)}),
                     ("press", "rate", 1, [0], False, {"fn": ("agg", "TGT_SUM", "beta", "w", None)}),
                     ("tot", None, None, [0], False, {"fn": ("agg", "SRC_SUM", "i", None, None)})],
                    [("s", "i", "foi"), ("i", "s", "press")],
                    F(1, 4), {"s": [0, 64], "i": [0, 16]}, pops=("p0", "p1"),
                    characs=[("alive", ["s", "i"], None)], interactions={"w": {("p0", "p0"): 1, ("p0", "p1"): F(1, 2), ("p1", "p0"): 2, ("p1", "p1"): 0}}, glob=False))
    # 12c'b a program that targets a cross-population aggregation (documented precedence: function -> program -> limits): the program outcome
    #       replaces the aggregated value in the targeted population while programs are active
    S.append(struct("progagg", [("s", "normal"), ("i", "normal")],
                    [("beta", "probability", 1, [F(1, 2), 2]),
                     ("prev", None, None, [0], False, {"fn": ("div", ("comp", "i"), ("max", ("char", "alive"), ("num", 1)))}),
                     ("avgprev", None, None, [0], False, {"fn": ("agg", "SRC_AVG", "prev", "w", "alive")}),
                     ("foi", "probability", 1, [0], False, {"fn": ("mul", ("par", "beta"), ("par", "avgprev")), "lim": (0, 3)})],
                    [("s", "i", "foi")],
                    F(1, 4), {"s": [0, 64], "i": [0, 16]}, pops=("p0", "p1"),
                    characs=[("alive", ["s", "i"], None)], interactions={"w": {("p0", "p0"): 1, ("p0", "p1"): F(1, 2), ("p1", "p0"): 2, ("p1", "p1"): 0}}, glob=False,
                    programs={"P1": dict(pops=["p0"], comps=["s"], caps=[0, 8, 64])}, effects={("avgprev", "p0"): dict(base=F(1, 8), progs={"P1": F(3, 4)})}))
    # 12c'' programs: the environment chooses each program's capacity and whether programs are active; parameters with an effect row take
    #       the program outcome at the coverage implied by the same-step size of the targeted compartments (number, rate and probability
    #       conversions, one- and two-program rows, a limit that binds, a function of a program-targeted parameter)
    S.append(struct("progsir", [("s", "normal"), ("i", "normal"), ("r", "normal"), ("d", "sink")],
                    [("beta", "probability", 1, [F(1, 2), 2]),
                     ("foi", "probability", 1, [0], False, {"fn": ("mul", ("par", "beta"), ("char", "prev")), "lim": (0, F(3, 2))}),
                     ("rec", "rate", 1, [F(1, 2)], False, {"lim": (None, F(3, 2))}),
                     ("treat", "number", 1, [0, 8]),
                     ("mort", "rate", 1, [0, 1])],
                    [("s", "i", "foi"), ("i", "r", "rec"), ("i", "r", "treat"), ("i", "d", "mort"), ("r", "s", "mort")],
                    F(1, 4), {"s": [0, 64], "i": [0, 16, 32], "r": [0], "d": [0]},
                    characs=[("alive", ["s", "i", "r"], None), ("prev", ["i"], "alive")], glob=False,
                    programs={"P1": dict(pops=["p0"], comps=["i"], caps=[0, 8, 64]), "P2": dict(pops=["p0"], comps=["s", "i"], caps=[0, 32])},
                    effects={("treat", "p0"): dict(base=0, progs={"P1": F(1, 2)}),
                             ("rec", "p0"): dict(base=F(1, 8), progs={"P1": F(1, 2), "P2": F(1, 4)}),
                             ("beta", "p0"): dict(base=F(1, 2), progs={"P2": F(1, 8)})}))
    # 12c-3 a program-driven junction proportion (not divided by dt), residual junction
    S.append(struct("progjunc", [("a", "normal"), ("k", "resjunction"), ("b", "normal"), ("c", "normal")],
                    [("r", "rate", 1, [F(1, 2), 2]), ("q1", "proportion", None, [F(1, 4)]), ("back", "probability", 1, [0, 1])],
                    [("a", "k", "r"), ("k", "b", "q1"), ("k", "c", ">"), ("b", "a", "back")],
                    F(1, 4), {"a": [0, 64], "b": [0, 16], "c": [0]}, glob=False,
                    programs={"P1": dict(pops=["p0"], comps=["a"], caps=[0, 16, 64])}, effects={("q1", "p0"): dict(base=F(1, 8), progs={"P1": F(3, 4)})}))
    # 12c-4 a calibration factor on the duration of a timed compartment: the duration in force is value x factor (D = 1/4 x 2 = 2 steps)
    S.append(struct("tyfac", [("a", "normal"), ("v", "timed", "dur"), ("d", "sink")],
                    [("vac", "probability", 1, [0, 3]), ("dur", "duration", 1, [F(1, 4)], True, {"y": 2}), ("mort", "rate", 1, [0, 2])],
                    [("a", "v", "vac"), ("v", "a", "dur"), ("v", "d", "mort")],
                    F(1, 4), {"a": [0, 100], "v": [[0, 0], [3, 5]], "d": [0]}))
    # 12d two duration groups in one population with an ordinary link between them: the move restarts the clock (it is not a
    #     time-preserving move), the remaining time in the old group is not carried over
    S.append(struct("tcross", [("a", "normal"), ("v", "timed", "d1"), ("w", "timed", "d2"), ("d", "sink")],
                    [("vac", "probability", 1, [0, 2]), ("d1", "duration", 1, [F(1, 2)], True), ("d2", "duration", 1, [1], True), ("sw", "probability", 1, [0, 1, 8]), ("mort", "rate", 1, [0, 2])],
                    [("a", "v", "vac"), ("v", "a", "d1"), ("w", "a", "d2"), ("v", "w", "sw"), ("w", "d", "mort")],
                    F(1, 4), {"a": [0, 64], "v": [[0, 0], [4, 8]], "w": [[0, 0, 0, 0], [1, 2, 3, 4]], "d": [0]}))
    # 13 residual junction inside a duration group (row-wise residual), proportions summing below and above 1
    S.append(struct("tresj", [("a", "normal"), ("v", "timed", "dur"), ("k", "resjunction", "dur"), ("w", "timed", "dur"), ("x", "timed", "dur"), ("d", "sink")],
                    [("vac", "probability", 1, [0, 2]), ("dur", "duration", 1, [F(3, 4)], True), ("go", "probability", 1, [0, 1, 8]),
                     ("q1", "proportion", None, [0, F(1, 4), F(3, 2)]), ("mort", "rate", 1, [0, 2])],
                    [("a", "v", "vac"), ("v", "a", "dur"), ("w", "a", "dur"), ("x", "d", "dur"), ("v", "k", "go"), ("k", "w", "q1"), ("k", "x", ">"), ("w", "d", "mort")],
                    F(1, 4), {"a": [0, 64], "v": [[1, 2, 3], [0, 16, 5]], "w": [[0, 0, 0], [4, 5, 6]], "x": [[0, 0, 0], [2, 0, 1]], "d": [0]}))
    if tier == "thorough":
        more = []
        for s in S:
            for k, dt in enumerate((F(1, 12), F(1, 10), F(1, 3), F(1), F(2))):
                if dt == s["dt"] or s["id"] in ("talone",):
                    continue
                t = dict(s)
                t["id"] = "%s_dt%d" % (s["id"], k)
                t["dt"] = dt
                t["glob"] = False  # (step-size variants: the grand total over all compartments is what overflows 32-bit rationals first)
                more.append(t)
        S += more
    return [expand(s, mode) for s in S]


def catalogue_r2(tier="quick"):
    """Benign worlds for multi-step exploration: every per-step fraction, competing-outflow sum and junction sum is a
    power of two, so denominators stay powers of two over many steps (32-bit rationals)."""
    S = []
    S.append(struct("r2_talone", [("a", "normal"), ("v", "timed", "dur"), ("d", "sink")],
                    [("vac", "probability", 1, [0, 2]), ("dur", "duration", 1, [F(3, 4)], True), ("mort", "rate", 1, [0, 2])],
                    [("a", "v", "vac"), ("v", "a", "dur"), ("v", "d", "mort")],
                    F(1, 4), {"a": [64], "v": [[0, 0, 0], [8, 0, 16]], "d": [0]}))
    S.append(struct("r2_tgroup", [("a", "normal"), ("v", "timed", "dur"), ("w", "timed", "dur"), ("d", "sink")],
                    [("vac", "probability", 1, [0, 2]), ("dur", "duration", 1, [F(1, 2)], True), ("sw", "probability", 1, [0, 2]), ("mort", "rate", 1, [0, 2])],
                    [("a", "v", "vac"), ("v", "a", "dur"), ("w", "a", "dur"), ("v", "w", "sw"), ("w", "d", "mort")],
                    F(1, 4), {"a": [64], "v": [[0, 0], [4, 8]], "w": [[0, 0], [0, 16]], "d": [0]}))
    S.append(struct("r2_tshort", [("a", "normal"), ("v", "timed", "dur"), ("d", "sink")],
                    [("vac", "probability", 1, [0, 2]), ("dur", "duration", F(1, 12), [1], True), ("mort", "rate", 1, [0, 2])],
                    [("a", "v", "vac"), ("v", "a", "dur"), ("v", "d", "mort")],
                    F(1, 4), {"a": [64], "v": [[0], [8]], "d": [0]}))
    S.append(struct("r2_tjunc", [("a", "normal"), ("v", "timed", "dur"), ("j", "junction", "dur"), ("w", "timed", "dur"), ("x", "timed", "dur"), ("d", "sink")],
                    [("vac", "probability", 1, [0, 2]), ("dur", "duration", 1, [F(1, 2)], True), ("go", "probability", 1, [0, 2]),
                     ("p1", "proportion", None, [F(1, 2)]), ("p2", "proportion", None, [0, F(3, 2)])],
                    [("a", "v", "vac"), ("v", "a", "dur"), ("w", "a", "dur"), ("x", "d", "dur"), ("v", "j", "go"), ("j", "w", "p1"), ("j", "x", "p2")],
                    F(1, 4), {"a": [64], "v": [[0, 0], [8, 16]], "w": [[0, 0]], "x": [[0, 0], [2, 0]], "d": [0]}))
    S.append(struct("r2_tfrac", [("a", "normal"), ("v", "timed", "dur"), ("d", "sink")],
                    [("vac", "probability", 1, [0, 2]), ("dur", "duration", 1, [F(3, 5)], True), ("mort", "rate", 1, [0, 2])],
                    [("a", "v", "vac"), ("v", "a", "dur"), ("v", "d", "mort")],
                    F(1, 4), {"a": [64], "v": [[0, 0, 0], [8, 0, 16]], "d": [0]}))
    S.append(struct("r2_tresj", [("a", "normal"), ("v", "timed", "dur"), ("k", "resjunction", "dur"), ("w", "timed", "dur"), ("x", "timed", "dur"), ("d", "sink")],
                    [("vac", "probability", 1, [0, 2]), ("dur", "duration", 1, [F(1, 2)], True), ("go", "probability", 1, [0, 2]), ("q1", "proportion", None, [F(1, 4), 2])],
                    [("a", "v", "vac"), ("v", "a", "dur"), ("w", "a", "dur"), ("x", "d", "dur"), ("v", "k", "go"), ("k", "w", "q1"), ("k", "x", ">")],
                    F(1, 4), {"a": [64], "v": [[0, 0], [8, 16]], "w": [[0, 0]], "x": [[0, 0], [4, 0]], "d": [0]}))
    S.append(struct("r2_junc", [("a", "normal"), ("j", "junction"), ("k", "resjunction"), ("b", "normal"), ("c", "normal"), ("d", "sink")],
                    [("r1", "probability", 1, [0, 1]), ("p1", "proportion", None, [F(1, 4)]), ("p2", "proportion", None, [F(1, 4), F(7, 4)]),
                     ("q1", "proportion", None, [F(1, 4)]), ("q2", "proportion", None, [0, F(7, 4)]), ("r3", "rate", 1, [1])],
                    [("a", "j", "r1"), ("j", "b", "p1"), ("j", "k", "p2"), ("k", "b", "q1"), ("k", "c", "q2"), ("k", "d", ">"), ("b", "a", "r3"), ("c", "j", "r3")],
                    F(1, 2), {"a": [128], "b": [0], "c": [16], "d": [0]}, jinit={"j": [0, 32], "k": [0, 8]}))
    S.append(struct("r2_diamond", [("a", "normal"), ("j", "junction"), ("j1", "junction"), ("j2", "junction"), ("b", "normal"), ("c", "normal"), ("tm", "timed", "dur")],
                    [("r", "rate", 1, [0, 2]), ("u1", "proportion", None, [1]), ("u2", "proportion", None, [0, 3]),
                     ("v1", "proportion", None, [F(1, 2)]), ("v2", "proportion", None, [F(3, 2)]),
                     ("w1", "proportion", None, [1]), ("w2", "proportion", None, [0, 1]), ("back", "probability", 1, [1]), ("dur", "duration", 1, [F(1, 2)], True)],
                    [("a", "j", "r"), ("j", "j1", "u1"), ("j", "j2", "u2"), ("j1", "b", "v1"), ("j1", "c", "v2"),
                     ("j2", "c", "w1"), ("j2", "tm", "w2"), ("b", "a", "back"), ("c", "a", "back"), ("tm", "a", "dur")],
                    F(1, 4), {"a": [64], "b": [0], "c": [0], "tm": [[4, 0]]}, jinit={"j": [0, 16], "j1": [0, 4], "j2": [8]}))
    S.append(struct("r2_xfer", [("a", "normal"), ("v", "timed", "dur"), ("d", "sink")],
                    [("vac", "probability", 1, [0, 2]), ("dur", "duration", 1, [F(1, 2)], True), ("mort", "rate", 1, [0])],
                    [("a", "v", "vac"), ("v", "a", "dur"), ("v", "d", "mort")],
                    F(1, 4), {"p0/a": [64], "p0/v": [[0, 0], [8, 4]], "p0/d": [0], "p1/a": [0, 16], "p1/v": [[0, 0]], "p1/d": [0]},
                    pops=("p0", "p1"), transfers=[("tr", "p0", "p1", "rate", [0, 2]), ("tr", "p1", "p0", "rate", [0, 2])]))
    S.append(struct("r2_reschain", [("a", "normal"), ("j2", "junction"), ("k", "resjunction"), ("b", "normal"), ("c", "normal"), ("d", "normal")],
                    [("r", "rate", 1, [0, 2]), ("q1", "proportion", None, [F(1, 4), 2]), ("u1", "proportion", None, [F(1, 2)]), ("u2", "proportion", None, [0, F(3, 2)]), ("back", "probability", 1, [0, 2])],
                    [("a", "k", "r"), ("k", "b", "q1"), ("k", "j2", ">"), ("j2", "c", "u1"), ("j2", "d", "u2"), ("b", "a", "back"), ("c", "a", "back")],
                    F(1, 4), {"a": [64], "b": [0], "c": [0], "d": [0]}, jinit={"k": [0, 16], "j2": [0, 8]}))
    # a junction that starts with people and whose stated proportion is a function of a compartment the initial flush changes: the
    # proportion recorded at the first time point is the one the first step's split used (parameters are re-evaluated after the flush)
    S.append(struct("r2_fnresj", [("a", "normal"), ("k", "resjunction"), ("b", "normal"), ("c", "normal")],
                    [("r", "rate", 1, [0, 2]), ("q1", "proportion", None, [0], False, {"fn": ("div", ("comp", "b"), ("num", 64))}), ("back", "probability", 1, [0, 2])],
                    [("a", "k", "r"), ("k", "b", "q1"), ("k", "c", ">"), ("c", "a", "back")],
                    F(1, 4), {"a": [64], "b": [0, 16], "c": [0]}, jinit={"k": [0, 16]}, glob=False))
    S.append(struct("r2_prog", [("a", "normal"), ("b", "normal")],
                    [("r", "rate", 1, [F(1, 2)]), ("back", "probability", 1, [0, 2])],
                    [("a", "b", "r"), ("b", "a", "back")],
                    F(1, 4), {"a": [64], "b": [0, 64]}, glob=False,
                    programs={"P1": dict(pops=["p0"], comps=["a"], caps=[0, 16, 128])}, effects={("r", "p0"): dict(base=F(1, 16), progs={"P1": F(1, 4)})}, gate=(1,)))
    # a program-driven number transition out of a compartment that the initial junction flush fills: the source population at the first
    # time point is the one after the flush
    S.append(struct("r2_progflush", [("a", "normal"), ("j", "junction"), ("x", "normal"), ("y", "normal")],
                    [("r", "rate", 1, [0, 2]), ("p1", "proportion", None, [1]), ("p2", "proportion", None, [0, 1]), ("nn", "number", 1, [0])],
                    [("a", "j", "r"), ("j", "x", "p1"), ("j", "y", "p2"), ("x", "y", "nn")],
                    F(1, 4), {"a": [64], "x": [0, 64], "y": [0]}, jinit={"j": [0, 64]}, glob=False,
                    programs={"P1": dict(pops=["p0"], comps=["x"], caps=[0, 64, 512])}, effects={("nn", "p0"): dict(base=0, progs={"P1": F(1, 16)})}, gate=(1,)))
    # an aggregation whose weighting variable is a function parameter several dependency levels deep: it is evaluated after its weight
    S.append(struct("r2_aggdeep", [("s", "normal"), ("i", "normal")],
                    [("rec", "rate", 1, [F(1, 2)]),
                     ("prev", None, None, [0], False, {"fn": ("div", ("comp", "i"), ("max", ("char", "alive"), ("num", 1)))}),
                     ("u0", None, None, [0], False, {"fn": ("div", ("comp", "i"), ("num", 32))}),
                     ("u1", None, None, [0], False, {"fn": ("mul", ("par", "u0"), ("num", 1))}),
                     ("wt", None, None, [0], False, {"fn": ("mul", ("par", "u1"), ("num", 1))}),
                     ("mix", None, None, [0], False, {"fn": ("agg", "SRC_AVG", "prev", "w", "wt")}),
                     ("foi", "rate", 1, [0], False, {"fn": ("mul", ("num", F(1, 2)), ("par", "mix"))})],
                    [("i", "s", "rec"), ("s", "i", "foi")],
                    F(1, 2), {"p0/s": [96], "p0/i": [32], "p1/s": [0, 32], "p1/i": [32]}, pops=("p0", "p1"),
                    characs=[("alive", ["s", "i"], None)], interactions={"w": {("p0", "p0"): 1, ("p0", "p1"): 1, ("p1", "p0"): 1, ("p1", "p1"): 1}}, glob=False, maxK=2))
    S.append(struct("r2_tcross", [("a", "normal"), ("v", "timed", "d1"), ("w", "timed", "d2"), ("d", "sink")],
                    [("vac", "probability", 1, [0, 2]), ("d1", "duration", 1, [F(1, 2)], True), ("d2", "duration", 1, [1], True), ("sw", "probability", 1, [0, 2]), ("mort", "rate", 1, [0])],
                    [("a", "v", "vac"), ("v", "a", "d1"), ("w", "a", "d2"), ("v", "w", "sw"), ("w", "d", "mort")],
                    F(1, 4), {"a": [64], "v": [[0, 0], [4, 8]], "w": [[0, 0, 0, 0]], "d": [0]}))
    return [expand(s, "r2") for s in S]


def catalogue_traceonly(tier="quick"):
    """Worlds that are only run and trace-checked, not explored: durations of hundreds of steps with step sizes that are not
    binary fractions (weekly, daily, 0.01), where D/dt is an integer only up to rounding error."""
    S = []
    for wid, dt, D in [("tweek", F(1, 52), 5), ("tday", F(1, 365), 1)] + ([("tcent", F(1, 100), 10), ("tweek2", F(1, 52), 2)] if tier == "thorough" else []):
        n = nrows(D, dt)
        S.append(struct(wid, [("a", "normal"), ("v", "timed", "dur"), ("d", "sink")],
                        [("vac", "probability", 1, [0, 3]), ("dur", "duration", 1, [D], True), ("mort", "rate", 1, [0, 2])],
                        [("a", "v", "vac"), ("v", "a", "dur"), ("v", "d", "mort")],
                        dt, {"a": [0, 100], "v": [[1] * n, [0] * (n - 1) + [60]], "d": [0]}))
    return [expand(s, "r1") for s in S]


# ------------------------------------------------------------------------------------------------ materialiser
_FW_CACHE = {}


def make_framework(w, extra_pars=None, characs=None):
    """Build the framework workbook of world w in memory and load it with atomica."""
    import sciris as sc
    import xlsxwriter
    import atomica as at

    s = w["struct"]
    f = io.BytesIO()
    wb = xlsxwriter.Workbook(f)
    wb.set_properties({"category": "atomica:framework"})

    def sheet(name, rows):
        ws = wb.add_worksheet(name)
        for i, r in enumerate(rows):
            for j, c in enumerate(r):
                if c is not None:
                    ws.write(i, j, c)

    sheet("Databook Pages", [["Datasheet Code Name", "Datasheet Title"], ["sv", "State"], ["pa", "Pars"]])
    rows = [["Code Name", "Display Name", "Is Source", "Is Sink", "Is Junction", "Setup Weight", "Default Value", "Databook Page"]]
    for c in s["comps"]:
        n, k = c[0], c[1]
        rows.append([n, "C " + n, "y" if k == "source" else "n", "y" if k == "sink" else "n", "y" if k in ("junction", "resjunction") else "n",
                     0 if k in ("source", "sink") else 1, None if k in ("source", "sink") else 0, None if k in ("source", "sink") else "sv"])
    sheet("Compartments", rows)
    names = [c[0] for c in s["comps"]]
    M = {a: {b: [] for b in names} for a in names}
    for (a, b, par) in s["links"]:
        M[a][b].append(par)
    sheet("Transitions", [["Transition Matrix"] + names] + [[a] + [", ".join(M[a][b]) if M[a][b] else None for b in names] for a in names])
    crow = [["Code Name", "Display Name", "Components", "Denominator", "Default Value", "Setup Weight", "Databook Page"]]
    for ch in characs or []:
        crow.append(list(ch))
    for ch in s.get("characs", []):
        crow.append([ch[0], "Ch " + ch[0], ", ".join(ch[1]), ch[2], None, 0, None])
    sheet("Characteristics", crow)
    rows = [["Code Name", "Display Name", "Format", "Timescale", "Default Value", "Minimum Value", "Maximum Value", "Function", "Databook Page", "Timed", "Targetable"]]
    targeted = {k[0] for k in s.get("effects", {})}

    def render(e):
        k = e[0]
        if k == "num":
            v = Fr(e[1])
            return repr(float(v)) if v.denominator != 1 else str(v.numerator)
        if k in ("par", "comp", "char"):
            return e[1]
        if k == "t":
            return "t"
        if k == "agg":
            fname = {"SRC_AVG": "SRC_POP_AVG", "SRC_SUM": "SRC_POP_SUM", "TGT_AVG": "TGT_POP_AVG", "TGT_SUM": "TGT_POP_SUM"}[e[1]]
            return "%s(%s)" % (fname, ", ".join(x for x in (e[2], e[3], e[4]) if x))
        if k in ("min", "max"):
            return "%s(%s, %s)" % (k, render(e[1]), render(e[2]))
        return "(%s %s %s)" % (render(e[1]), {"add": "+", "sub": "-", "mul": "*", "div": "/"}[k], render(e[2]))

    for p in s["pars"]:
        n, units, T = p[0], p[1], p[2]
        timed = len(p) > 4 and p[4]
        extra = p[5] if len(p) > 5 else {}
        lo, hi = extra.get("lim", (None, None))
        fn = extra.get("fn")
        rows.append([n, "P " + n, units, None if T is None else float(Fr(T)), None if fn else 1, None if lo is None else float(Fr(lo)), None if hi is None else float(Fr(hi)),
                     render(fn) if fn else None, None if fn else "pa", "y" if timed else "n", "y" if n in targeted else "n"])
    for p in extra_pars or []:
        rows.append(list(p) + ["n"] * (len(rows[0]) - len(p)))
    sheet("Parameters", rows)
    if s.get("interactions"):
        sheet("Interactions", [["Code Name", "Display Name", "Default Value"]] + [[n, "I " + n, None] for n in s["interactions"]])
    wb.close()
    return at.ProjectFramework(sc.Spreadsheet(f))


def framework_and_data(w):
    import sciris as sc
    import atomica as at

    key = w["id"]
    if key not in _FW_CACHE:
        Fw = make_framework(w)
        tnames = sorted({t[0] for t in w["struct"]["transfers"]})
        D = at.ProjectData.new(Fw, np.array([2000.0]), pops=sc.odict((p, p) for p in w["pops"]), transfers=sc.odict((t, t) for t in tnames) if tnames else 0)  # (interactions come from the framework)
        _FW_CACHE[key] = (Fw, D)
    return _FW_CACHE[key]


UNITLABEL = {"rate": "Rate (per year)", "probability": "Probability (per year)", "number": "Number (per year)", "duration": "Duration (years)"}


def build_parset(w, pv_by_step, tvec):
    """ParameterSet whose data parameters take pv_by_step[k][i] at time tvec[k] (exact at knots; constant if one step)."""
    import sciris as sc
    import atomica as at
    from atomica.utils import TimeSeries

    Fw, D = framework_and_data(w)
    D = sc.dcp(D)
    K = len(pv_by_step)
    for i, p in enumerate(w["pars"]):
        if p.get("transfer"):
            tname, a, b = p["transfer"]
            tr = [t for t in D.transfers if t.code_name == tname][0]
            ts = TimeSeries(units=UNITLABEL[p["units"]])
            if K == 1:
                ts.assumption = float(pv_by_step[0][i])
            else:
                ts.t = [float(t) for t in tvec[:K]]
                ts.vals = [float(pv_by_step[k][i]) for k in range(K)]
            tr.ts[(a, b)] = ts
    for iname, wts in w["struct"].get("interactions", {}).items():
        tdc = [x for x in D.interpops if x.code_name == iname][0]
        tdc.ts.clear() if hasattr(tdc.ts, "clear") else None
        for (a, b), v in wts.items():
            if Fr(v) != 0:
                ts = TimeSeries(units="N.A.")
                ts.assumption = float(Fr(v))
                tdc.ts[(a, b)] = ts
    ps = at.ParameterSet(Fw, D)
    for i, p in enumerate(w["pars"]):
        if not p.get("transfer") and not p.get("fn") and not p.get("pseudo"):
            if p.get("y", 1) != 1:
                ps.pars[p["base"]].y_factor[p["pop"]] = float(p["y"])  # calibration factor (only used on duration parameters of timed compartments)
            ts = ps.pars[p["base"]].ts[p["pop"]]
            if K == 1 or p["timed"]:
                ts.t = []
                ts.vals = []
                ts.assumption = float(pv_by_step[0][i])
            else:
                ts.assumption = None
                ts.t = [float(t) for t in tvec[:K]]
                ts.vals = [float(pv_by_step[k][i]) for k in range(K)]
    return Fw, ps


def build_programs(w, ps, pv_by_step, tvec):
    """(ProgramSet, ProgramInstructions) of a world with programs: capacities per step from the pseudo parameters (capacity overwrites,
    people / year, stepped), programs active from the first time point iff the gate is 1."""
    import sciris as sc
    import atomica as at
    from atomica.programs import Covout
    from atomica.utils import TimeSeries

    st = w["struct"]
    if not st.get("programs"):
        return None, None
    Fw, D = framework_and_data(w)
    pg = at.ProgramSet.new(tvec=np.array([2000.0]), progs=sc.odict((pn, pn) for pn in st["programs"]), framework=Fw, data=D)
    for pn, pd in st["programs"].items():
        pr = pg.programs[pn]
        pr.target_pops, pr.target_comps = list(pd["pops"]), list(pd["comps"])
        pr.spend_data = TimeSeries(assumption=1.0, units="$/year")
        pr.unit_cost = TimeSeries(assumption=1.0, units="$/person/year")
    for (par, pop), eff in st["effects"].items():
        pg.covouts[(par, pop)] = Covout(par, pop, {k: float(Fr(v)) for k, v in eff["progs"].items()}, cov_interaction="random", baseline=float(Fr(eff["base"])))
    K = len(pv_by_step)
    names = [p["name"] for p in w["pars"]]
    gate = float(pv_by_step[0][names.index("@gate")])
    cap = {}
    for pn in st["programs"]:
        i = names.index("@cap/%s" % pn)
        cap[pn] = TimeSeries([float(t) for t in tvec[:K]], [float(pv_by_step[k][i]) for k in range(K)], units="people/year")
    ins = at.ProgramInstructions(start_year=float(tvec[0]) if gate else 9999.0, alloc=pg, capacity=cap)
    return pg, ins


def set_state(w, ps, stock):
    from atomica.parameters import Initialization

    vals = {}
    for c, st in zip(w["comps"], stock):
        fl = [float(x) for x in st]
        vals[(c["base"], c["pop"])] = np.array(fl) if c["kind"] == "timed" else fl[0]
    ps.initialization = Initialization(values=vals)


def find_link(model, w, l):
    """The model Link object corresponding to world link l."""
    sp, sn = l["src"].split("/")
    dp, dn = l["dst"].split("/")
    cands = [x for p in model.pops for x in p.links if x.source.pop.name == sp and x.source.name == sn and x.dest.pop.name == dp and x.dest.name == dn]
    if l["flush"]:
        cands = [x for x in cands if x.parameter is None and getattr(x.source, "flush_link", None) is x]
    elif l["par"] == ">":
        cands = [x for x in cands if x.parameter is None]
    else:
        base = l["par"].split("/")[1]
        cands = [x for x in cands if x.parameter is not None and x.parameter.name == base]
    if len(cands) != 1:
        raise LookupError("link %r matched %d model links" % (l, len(cands)))
    return cands[0]


def link_rows(x, k):
    v = getattr(x, "_vals", None)
    return [float(y) for y in v[:, k]] if v is not None else [float(x.vals[k])]


def comp_rows(x, k, kind):
    return [float(y) for y in x._vals[:, k]] if kind == "timed" else [float(x.vals[k])]
