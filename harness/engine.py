"""Driver for the engine specification (spec/Engine.tla): exhaustive TLC runs per world, replay of every explored
transition / behaviour into the real atomica Model, comparison of exact rationals with the floats of the code."""
import json
import os
import re
import shutil
import sys
import tempfile
import time
from concurrent.futures import ProcessPoolExecutor, ThreadPoolExecutor
from fractions import Fraction as Fr

import numpy as np

from . import common as C
from . import worlds as WD

R1_INV = {
    "C01": ["C01_JunctionPass", "C01_ClipNeverFires"],
    "C02": ["C02_NonNeg", "C02_NoOverdraw", "C02_Ratio", "C02_NegZero"],
    "C04": ["C04_JEmpty", "C04_JSplit"],
    "C05": ["C05_Rows", "C05_Flush"],
}
R1_PROP = {"C01": ["C01_Balance", "C01_Global"]}
R2_INV = {
    "C01": ["C01_JunctionPass", "C01_ClipNeverFires"],
    "C02": ["C02_NonNeg", "C02_NoOverdraw"],
    "C04": ["C04_JEmpty", "C04_JSplit"],
    "C05": ["C05_Rows", "C05_Flush", "C05_OnTime", "C05_Bound", "C05_NotEarly"],
}
R2_INV["C10"] = ["C10_StartupNoop", "C04_JEmpty"]
R1_INV["C10"] = ["C10_StartupNoop"]
R2_PROP = {"C01": ["C01_Balance", "C01_Global", "C01_FlushConserves"], "C04": ["C01_FlushConserves"]}


def cfg_text(mode, K, invs, props):
    s = "SPECIFICATION Spec\nCONSTANTS\n  K = %d\n  Mode = \"%s\"\n" % (K, mode)
    for i in invs:
        s += "INVARIANT %s\n" % i
    for p in props:
        s += "PROPERTY %s\n" % p
    s += "CHECK_DEADLOCK FALSE\n"
    return s


def run_world(w, mode, K, invs, props, timeout=300, workers=2, simulate=None):
    """One TLC process for one world; returns (TlcResult, cases)."""
    d = C.prepare_specdir(["Rat", "Engine"], {"Worlds.tla": WD.worlds_module([w]), "E.cfg": cfg_text(mode, K, invs, props)})
    dump = os.path.join(d, "dump")
    extra = []
    if simulate:
        r = C.run_tlc(d, "Engine", cfg="E.cfg", workers=1, timeout=timeout, simulate="file=%s/sim,num=%d" % (d, simulate), extra=["-depth", str(3 * K + 6), "-seed", str(C.seed() + 1)])
        text = ""
        for fn in sorted(os.listdir(d)):
            if fn.startswith("sim"):
                text += open(os.path.join(d, fn)).read()
    else:
        r = C.run_tlc(d, "Engine", cfg="E.cfg", workers=workers, timeout=timeout, dump=dump)
        text = open(dump + ".dump").read() if os.path.exists(dump + ".dump") else ""
    cases = C.parse_obs(text)
    shutil.rmtree(d, ignore_errors=True)
    return r, cases


def explore(worlds, mode, K, invs, props, simulate=None, par=8):
    """TLC over all worlds in parallel. Returns dict(states, transitions, cases[(w, case)], violated[(world, name)], overflow[world])."""
    res = dict(states=0, transitions=0, cases=[], violated=[], overflow=[], wall=0.0, per_world={})
    t0 = time.time()

    def one(w):
        try:
            return w, run_world(w, mode, K, invs, props, simulate=simulate), None
        except C.MachineryError as e:
            return w, None, e

    with ThreadPoolExecutor(par) as ex:
        for w, rc, err in ex.map(one, worlds):
            if err is not None:
                raise err
            r, cases = rc
            if r.overflow:
                res["overflow"].append(w["id"])
                continue
            for v in r.violated:
                res["violated"].append((w["id"], v, r.out[-3000:]))
            if not r.violated:
                C.tlc_ok(r, "Engine/%s" % w["id"])
            res["states"] += r.distinct
            res["transitions"] += r.generated
            res["per_world"][w["id"]] = dict(states=r.distinct, cases=len(cases))
            for c in cases:
                res["cases"].append((w["id"], c))
    res["wall"] = time.time() - t0
    return res


# ------------------------------------------------------------------------------------------------ replay
def fr(x):
    return Fr(x[0], x[1])


def close(obs, exp, rtol=1e-9):
    e = float(exp)
    return np.isfinite(obs) and abs(obs - e) <= rtol * max(1.0, abs(e))


_WORLDS = {}
_WORLDS_ALL = {}


def _init_pool(worlds_by_id):
    global _WORLDS
    _WORLDS = worlds_by_id
    C.quiet_atomica()


def replay_case(args):
    """Run one explored behaviour (R1: one step; R2: K steps incl. start-up) in the real code.
    Returns dict(mism=[...], obs=observed trace for EngineTrace, skipped=reason|None)."""
    wid, case, want_obs = args
    import atomica as at

    w = _WORLDS[wid]
    hist = case["hist"]
    K = len(hist)
    dt = float(w["dt"])
    S = at.ProjectSettings(sim_start=2000, sim_end=2000 + K * dt, sim_dt=dt)
    tv = S.tvec
    if len(tv) != K + 1:
        return dict(mism=[("tvec", len(tv), K + 1)], obs=None, skipped=None, trace=None)
    if any(h["ill"] for h in hist):
        return dict(mism=[], obs=None, skipped="ill-posed", trace=None)
    pv = [[fr(x) for x in h.get("rw", h["pv"])] for h in hist]  # the environment's (data) values; function parameters are computed by the code
    Fw, ps = WD.build_parset(w, pv, tv)
    st0 = case.get("init", hist[0]["st"])
    WD.set_state(w, ps, [[fr(x) for x in rows] for rows in st0])
    mism = []
    from . import observe as O

    pg, ins = WD.build_programs(w, ps, pv, tv)
    try:
        with O.LinkObserver():
            r = at.run_model(S, Fw, ps, pg, ins)
    except ValueError as ex:
        if "broadcast" in str(ex):  # the injected state has the specification's number of rows; the code allocated another
            ps.initialization = None
            m0 = at.Model(S, Fw, ps)
            got = {c["name"]: int(m0.get_pop(c["pop"]).get_comp(c["base"])._vals.shape[0]) for c in w["comps"] if c["kind"] == "timed"}
            want = {c["name"]: c["rows"] for c in w["comps"] if c["kind"] == "timed"}
            return dict(mism=[("rows", 0, got, want)], obs=None, skipped=None, trace=None)
        return dict(mism=[("exception", type(ex).__name__, str(ex)[:300])], obs=None, skipped=None, trace=None)
    except Exception as ex:  # the spec says this behaviour exists; the code refuses it
        return dict(mism=[("exception", type(ex).__name__, str(ex)[:300])], obs=None, skipped=None, trace=None)
    m = r.model
    trace = None
    if want_obs:
        path = os.path.join(C.scratch(), "rep_%d.ndjson" % os.getpid())
        O.record_run(m, path, wid=wid, world=w, init=[[float(fr(x)) for x in rows] for rows in st0])
        trace = open(path).read().splitlines()
        os.remove(path)
    links = [WD.find_link(m, w, l) for l in w["links"]]
    comps = [m.get_pop(c["pop"]).get_comp(c["base"]) for c in w["comps"]]
    obs = dict(w=wid, steps=[]) if want_obs else None
    for k, h in enumerate(hist):
        ofl = [WD.link_rows(x, k) for x in links]
        ost = [WD.comp_rows(x, k, c["kind"]) for x, c in zip(comps, w["comps"])]
        for l, o, e in zip(w["links"], ofl, h["fl"]):
            if len(o) != len(e) or not all(close(a, fr(b)) for a, b in zip(o, e)):
                mism.append(("flow", k, l["src"], l["dst"], l["par"], o, [str(fr(b)) for b in e]))
        for i, p in enumerate(w["pars"]):  # parameters computed by a function: the pipeline's value (dependencies first, clipped) at this index
            if p.get("fn") or p.get("effect"):
                o = float(m.get_pop(p["pop"]).get_par(p["base"]).vals[k])
                if not close(o, fr(h["pv"][i])):
                    mism.append(("par", k, p["name"], o, str(fr(h["pv"][i]))))
        for c, o, e in zip(w["comps"], ost, h["st"]):
            if len(o) != len(e):
                mism.append(("rows", k, c["name"], len(o), len(e)))
            elif not all(close(a, fr(b)) for a, b in zip(o, e)):
                mism.append(("stock", k, c["name"], o, [str(fr(b)) for b in e]))
        if want_obs:
            nxt = [WD.comp_rows(x, k + 1, c["kind"]) for x, c in zip(comps, w["comps"])]
            obs["steps"].append(dict(ti=k, pv=[float(x) for x in pv[k]], st=ost, fl=ofl, nx=nxt))
    ofin = [WD.comp_rows(x, K, c["kind"]) for x, c in zip(comps, w["comps"])]
    for c, o, e in zip(w["comps"], ofin, case["final"]):
        if len(o) != len(e) or not all(close(a, fr(b)) for a, b in zip(o, e)):
            mism.append(("final", K, c["name"], o, [str(fr(b)) for b in e]))
    return dict(mism=mism[:8], obs=None, skipped=None, trace=trace)


def replay(worlds, cases, want_obs=False, procs=None):
    """cases: [(wid, case)] -> list of results in order."""
    by_id = {w["id"]: w for w in worlds}
    procs = procs or C.NCPU
    args = [(wid, c, want_obs) for wid, c in cases]
    if len(args) < 8:
        _init_pool(by_id)
        return [replay_case(a) for a in args]
    with ProcessPoolExecutor(procs, initializer=_init_pool, initargs=(by_id,)) as ex:
        return list(ex.map(replay_case, args, chunksize=max(1, len(args) // (procs * 8))))


def pool_map(worlds, fn, args, procs=None):
    by_id = {w["id"]: w for w in worlds}
    procs = procs or C.NCPU
    if len(args) < 8:
        _init_pool(by_id)
        return [fn(a) for a in args]
    with ProcessPoolExecutor(procs, initializer=_init_pool, initargs=(by_id,)) as ex:
        return list(ex.map(fn, args, chunksize=max(1, len(args) // (procs * 8))))


def stratified(cases, n, rng):
    """Pick n cases covering every world evenly."""
    if len(cases) <= n:
        return list(cases)
    by = {}
    for wc in cases:
        by.setdefault(wc[0], []).append(wc)
    per = max(1, n // len(by))
    out = []
    for wid, cs in by.items():
        idx = rng.permutation(len(cs))[:per]
        out += [cs[i] for i in idx]
    return out


def pick_K(w, budget, kmin=2, kmax=6):
    """Largest K in [kmin, kmax] such that the number of complete behaviours init * dom^K stays within budget."""
    a, b = WD.n_cases(w)
    K = kmin
    kmax = min(kmax, w["struct"].get("maxK", kmax))  # (worlds whose rationals grow fast state their own depth limit: 32-bit arithmetic)
    while K < kmax and a * b ** (K + 1) <= budget:
        K += 1
    return K


def explore_r2(worlds, budget, invs, props, par=8):
    """Exhaustive multi-step exploration, each world with its own depth."""
    total = dict(states=0, transitions=0, cases=[], violated=[], overflow=[], wall=0.0, per_world={})
    byK = {}
    for w in worlds:
        byK.setdefault(pick_K(w, budget), []).append(w)
    pending = sorted(byK.items())
    while pending:
        K, ws = pending.pop(0)
        r = explore(ws, "r2", K, invs, props, par=par)
        for k in ("states", "transitions", "wall"):
            total[k] += r[k]
        for k in ("cases", "violated"):
            total[k] += r[k]
        # a world whose rationals outgrow 32 bits at this depth is explored one step less deep (down to 2 steps) before it counts as an overflow
        again = [w for w in ws if w["id"] in r["overflow"]]
        if again and K > 2:
            pending.append((K - 1, again))
        else:
            total["overflow"] += r["overflow"]
        for wid, d in r["per_world"].items():
            d["K"] = K
            total["per_world"][wid] = d
    return total
