"""C14: TotalSpendConstraint / constrain_sum_bounded / SpendingPackageAdjustment against spec/Alloc.tla."""
import time
from fractions import Fraction as Fr

import numpy as np

from . import common as C
from . import fix as FX

INF = [1000000, 1]
NOTOTAL = [-1, 1]
YEARS = [2020.0, 2022.0]


def cfg(n, small):
    s = "SPECIFICATION Spec\nCONSTANTS\n  NProg = %d\n  Grid <- MCGrid\n  Initials <- MCInitials%d\n  Totals <- MCTotals\n  Factors <- MCFactors\n  BoundPairs <- %s\n" % (n, n, "MCBoundPairsSmall" if small else "MCBoundPairs")
    return s + "INVARIANT UnresolvableSound\nINVARIANT WitnessOK\nCHECK_DEADLOCK FALSE\n"


def fr(x):
    return Fr(x[0], x[1])


def f(x):
    return float("inf") if x == INF else float(fr(x))


def observe(at, c0):
    """Run one case through the optimisation API. Returns (outcome, z per year or None, error text)."""
    import sciris as sc
    from atomica.optimization import SpendingAdjustment, TotalSpendConstraint, Optimization, MaximizeMeasurable, UnresolvableConstraint, FailedConstraint
    from atomica.utils import TimeSeries

    c = c0["case"]
    n = c0["n"]
    ny = len(c["x"])
    ts = YEARS[:ny]
    names = ["P%d" % (i + 1) for i in range(n)]
    adjs = [SpendingAdjustment(names[i], t=ts, limit_type="rel" if c["rel"] else "abs", lower=[f(c["bnd"][y][i][0]) for y in range(ny)],
                               upper=[f(c["bnd"][y][i][1]) for y in range(ny)], initial=[f(c["x0"][y][i]) for y in range(ny)]) for i in range(n)]
    totals = [None if c["tot"][y] == NOTOTAL else f(c["tot"][y]) for y in range(ny)]
    con = TotalSpendConstraint(total_spend=totals if any(t is not None for t in totals) else None, t=ts, budget_factor=f(c["factor"]))
    opt = Optimization(adjustments=adjs, measurables=MaximizeMeasurable("x", ts), constraints=con)
    ins0 = at.ProgramInstructions(start_year=2019.0, alloc={names[i]: TimeSeries(ts, [f(c["x0"][y][i]) for y in range(ny)]) for i in range(n)})
    x0 = [f(c["x0"][y][i]) for i in range(n) for y in range(ny)]
    try:
        hard = opt.get_hard_constraints(x0, ins0)
    except UnresolvableConstraint:
        return "unresolvable", None, ""
    except Exception as ex:
        return "error", None, "get_hard_constraints: %s: %s" % (type(ex).__name__, str(ex)[:200])
    ins = sc.dcp(ins0)
    prop = [f(c["x"][y][i]) for i in range(n) for y in range(ny)]
    try:
        opt.update_instructions(prop, ins)
        with np.errstate(all="ignore"):
            opt.constrain_instructions(ins, hard)
    except FailedConstraint:
        return "failed", None, ""
    except Exception as ex:
        return "error", None, "constrain_instructions: %s: %s" % (type(ex).__name__, str(ex)[:200])
    z = [[float(ins.alloc[names[i]].get(ts[y])) for i in range(n)] for y in range(ny)]
    if not all(np.isfinite(v) for row in z for v in row):
        return "error", None, "non-finite allocation returned %s" % z
    return "ok", z, ""


def run(prop, tier):
    t0 = time.time()
    at = C.quiet_atomica()
    V = C.Verdict(prop)
    thorough = tier == "thorough"
    plan = [(2, not thorough)] + ([(3, True)] if thorough else [])
    cov = dict(states=0, transitions=0, traces_validated_against_impl=0, samples=[], exhaustive=True, plan=[])
    records, index = [], {}
    rid = 0
    outcomes = {}
    for n, small in plan:
        r, cases = C.enumerate_cases(["Rat", "Alloc", "MCAlloc"], "MCAlloc", cfg(n, small), timeout=3000)
        cov["states"] += r.distinct
        cov["transitions"] += r.generated
        cov["plan"].append(dict(n=n, small=small, cases=len(cases)))
        for c0 in cases:
            outcome, z, err = observe(at, c0)
            outcomes[outcome] = outcomes.get(outcome, 0) + 1
            yrs = []
            for y, yr in enumerate(c0["year"]):
                yrs.append(dict(total=yr["total"], lower=yr["lower"], upper=yr["upper"], unresolvable=yr["unresolvable"], satisfied=yr["satisfied"], x=c0["case"]["x"][y],
                                z=FX.fixseq(z[y]) if z else [FX.fix(0.0) for _ in yr["lower"]]))
            records.append(dict(id=rid, outcome=outcome, years=yrs))
            index[rid] = dict(case=c0["case"], derived=c0["year"], outcome=outcome, z=z, error=err)
            rid += 1
        cov["samples"].append(cases[len(cases) // 2])
    bad, states = C.validate_batch(["Rat", "Big", "AllocTrace"], "AllocTrace", records, timeout=3000)
    cov["states"] += states
    cov["transitions"] += states
    cov["traces_validated_against_impl"] = len(records)
    cov["outcomes"] = outcomes
    for rid_, clause in bad:
        d = index[rid_]
        zero_total = any(fr(y["total"]) == 0 for y in d["derived"])
        V.violation("C14 %s%s %s" % (clause, " total=0" if zero_total else "", d["error"].split(":")[1].strip() if d["error"] else ""), dict(clause=clause, **d))
    return V, cov, time.time() - t0
