"""C14: TotalSpendConstraint / constrain_sum_bounded / SpendingPackageAdjustment against spec/Alloc.tla."""
import time
from fractions import Fraction as Fr

import numpy as np

from . import common as C
from . import fix as FX

INF = [1000000, 1]
NOTOTAL = [-1, 1]
YEARS = [2020.0, 2022.0]


GRID = ["<<0,1>>", "<<1,1>>", "<<2,1>>", "<<5,1>>"]
BOUNDS = ["<<<<0,1>>, INF>>", "<<<<1,2>>, INF>>", "<<<<0,1>>, <<2,1>>>>", "<<<<1,1>>, <<1,1>>>>", "<<<<1,2>>, <<2,1>>>>", "<<<<0,1>>, <<1,2>>>>"]
BOUNDS_SMALL = ["<<<<0,1>>, INF>>", "<<<<1,2>>, INF>>", "<<<<1,1>>, <<1,1>>>>", "<<<<1,2>>, <<2,1>>>>"]


# vectors that are always part of the samples: the solver (SLSQP at its default-ish tolerance) missed the required total by more than
# 1e-6 relative on these (6 programs: 11.99997588 for 12; 10 programs: 4.5000179 for 4.5) until fix 43
_g = lambda v: {0: GRID[0], 1: GRID[1], 2: GRID[2], 5: GRID[3]}[v]
_b = lambda lo, hi: "<<%s, %s>>" % ({0: "<<0,1>>", 0.5: "<<1,2>>", 1: "<<1,1>>"}[lo], {None: "INF", 0.5: "<<1,2>>", 1: "<<1,1>>", 2: "<<2,1>>"}[hi])
PINNED = {6: ([1, 0, 1, 1, 0, 1], [0, 2, 2, 2, 2, 0], [(0.5, 2), (0.5, None), (0, 0.5), (0, 2), (1, 1), (0.5, None)]),
          10: ([0, 2, 5, 0, 5, 0, 5, 5, 2, 1], [2, 5, 2, 5, 1, 5, 5, 5, 5, 1], [(0.5, 2), (1, 1), (0.5, None), (0.5, None), (0.5, None), (0, 2), (0.5, None), (0, None), (0, None), (0.5, 2)])}


def sampled_module(n, small, sample):
    """MCAlloc.tla with the sample sets for n programs (seeded by VERIF_SEED)."""
    rng = np.random.default_rng(C.seed() * 1000 + n)
    txt = open(C.SPEC + "/MCAlloc.tla").read()
    sets = [C.sample_vectors(rng, GRID, n, sample), C.sample_vectors(rng, GRID, n, sample), C.sample_vectors(rng, BOUNDS_SMALL if small else BOUNDS, n, sample)]
    if n in PINNED and not small:
        x, x0, b = PINNED[n]
        pins = ["<<%s>>" % ", ".join(_g(v) for v in x), "<<%s>>" % ", ".join(_g(v) for v in x0), "<<%s>>" % ", ".join(_b(lo, hi) for lo, hi in b)]
        sets = ["(%s \\cup {%s})" % (a_, p_) for a_, p_ in zip(sets, pins)]
    add = "MCSampX == %s\nMCSampX0 == %s\nMCSampB == %s\n" % tuple(sets)
    return {"MCAlloc.tla": txt.replace("====", add + "====")}


def cfg(n, small, sample=0):
    s = "SPECIFICATION Spec\nCONSTANTS\n  NProg = %d\n  Grid <- MCGrid\n  Initials <- MCInitials%s\n  Totals <- MCTotals\n  Factors <- MCFactors\n  BoundPairs <- %s\n  Sample = %d\n  SampX <- %s\n  SampX0 <- %s\n  SampB <- %s\n" % (
        n, str(n) if n <= 3 else "Any", "MCBoundPairsSmall" if small else "MCBoundPairs", sample, *(("MCSampX", "MCSampX0", "MCSampB") if sample else ("MCNone", "MCNone", "MCNone")))
    return s + "INVARIANT UnresolvableSound\nINVARIANT WitnessOK\nCHECK_DEADLOCK FALSE\n"


def fr(x):
    return Fr(x[0], x[1])


def f(x):
    return float("inf") if x == INF else float(fr(x))


def observe(at, c0, split=False, reverse=False):
    """Run one case through the optimisation API. Returns (outcome, z per year or None, error text)."""
    import sciris as sc
    from atomica.optimization import SpendingAdjustment, TotalSpendConstraint, Optimization, MaximizeMeasurable, UnresolvableConstraint, FailedConstraint
    from atomica.utils import TimeSeries

    c = c0["case"]
    n = c0["n"]
    ny = len(c["x"])
    ts = YEARS[:ny]
    names = ["P%d" % (i + 1) for i in range(n)]
    adjs = [SpendingAdjustment(names[i], t=ts, limit_type="rel" if c["rel"] else "abs", lower=[f(c["bnd"][y][i][0]) for y in range(ny)],
                               upper=[f(c["bnd"][y][i][1]) for y in range(ny)], initial=[f(c["x0"][y][i]) for y in range(ny)]) for i in range(n)]
    totals = [None if c["tot"][y] == NOTOTAL else f(c["tot"][y]) for y in range(ny)]
    if ny == 2 and split:  # the two constrained years given as two constraint objects instead of one
        con = [TotalSpendConstraint(total_spend=None if totals[y] is None else [totals[y]], t=[ts[y]], budget_factor=f(c["factor"])) for y in range(ny)]
    elif ny == 2 and reverse and any(t is not None for t in totals):  # the constrained years listed latest first, each with its own total
        con = TotalSpendConstraint(total_spend=totals[::-1], t=ts[::-1], budget_factor=f(c["factor"]))
    else:
        con = TotalSpendConstraint(total_spend=totals if any(t is not None for t in totals) else None, t=ts, budget_factor=f(c["factor"]))
    opt = Optimization(adjustments=adjs, measurables=MaximizeMeasurable("x", ts), constraints=con)
    ins0 = at.ProgramInstructions(start_year=2019.0, alloc={names[i]: TimeSeries(ts, [f(c["x0"][y][i]) for y in range(ny)]) for i in range(n)})
    x0 = [f(c["x0"][y][i]) for i in range(n) for y in range(ny)]
    try:
        hard = opt.get_hard_constraints(x0, ins0)
    except UnresolvableConstraint:
        return "unresolvable", None, ""
    except Exception as ex:
        return "error", None, "get_hard_constraints: %s: %s" % (type(ex).__name__, str(ex)[:200])
    ins = sc.dcp(ins0)
    prop = [f(c["x"][y][i]) for i in range(n) for y in range(ny)]
    try:
        opt.update_instructions(prop, ins)
        with np.errstate(all="ignore"):
            opt.constrain_instructions(ins, hard)
    except FailedConstraint:
        return "failed", None, ""
    except Exception as ex:
        return "error", None, "constrain_instructions: %s: %s" % (type(ex).__name__, str(ex)[:200])
    z = [[float(ins.alloc[names[i]].get(ts[y])) for i in range(n)] for y in range(ny)]
    if not all(np.isfinite(v) for row in z for v in row):
        return "error", None, "non-finite allocation returned %s" % z
    return "ok", z, ""


PROPS = ["<<<<0,1>>, <<1,1>>>>", "<<<<1,4>>, <<3,4>>>>", "<<<<0,1>>, <<1,2>>>>"]
FRACS = ["<<0,1>>", "<<1,4>>", "<<1,2>>", "<<1,1>>"]


def sampled_pkg_module(n, sample):
    rng = np.random.default_rng(C.seed() * 1000 + 500 + n)
    txt = open(C.SPEC + "/MCPackage.tla").read()
    add = "MCSampPB == %s\nMCSampFR == %s\n" % (C.sample_vectors(rng, PROPS, n, sample), C.sample_vectors(rng, FRACS, n, 3 * sample))
    return {"MCPackage.tla": txt.replace("====", add + "====")}


def cfg_pkg(n, sample=0):
    s = "SPECIFICATION Spec\nCONSTANTS\n  SampPB <- %s\n  SampFR <- %s\n" % (("MCSampPB", "MCSampFR") if sample else ("MCNone", "MCNone"))
    s += "  PkgSample = %d\n  NMem = %d\n  Inits <- MCInits%d\n  PropPairs <- MCPropPairs\n  FracGrid <- MCFracGrid\n  TotalRanges <- MCTotalRanges\n  Plains <- MCPlains\n  ConFactors <- MCCons\n  WGrid <- MCWGrid\n" % (sample, n, n)
    return s + "INVARIANT ShareFeasible\nINVARIANT UnresSound\nINVARIANT LevelFeasible\nCHECK_DEADLOCK FALSE\n"


def observe_pkg(at, c0):
    """One package case through SpendingPackageAdjustment + SpendingAdjustment (+ TotalSpendConstraint)."""
    import sciris as sc
    from atomica.optimization import SpendingAdjustment, SpendingPackageAdjustment, TotalSpendConstraint, Optimization, MaximizeMeasurable, UnresolvableConstraint, FailedConstraint
    from atomica.utils import TimeSeries

    c = c0["case"]
    n = c0["n"]
    t = 2020.0
    names = ["M%d" % (i + 1) for i in range(n)]
    init = [f(v) for v in c["init"]]
    out = dict(outcome="ok", stage1=False, stage2=False, z1=[0.0] * n, q1=0.0, z2=[0.0] * n, q2=0.0, err="")
    try:
        pkg = SpendingPackageAdjustment("pkg", t, names, init, min_props=[f(b[0]) for b in c["pb"]], max_props=[f(b[1]) for b in c["pb"]],
                                        min_total_spend=f(c0["mint"]), max_total_spend=f(c0["maxt"]))
        q = SpendingAdjustment("Q", t=t, limit_type="abs", lower=f(c["plain"]["lo"]), upper=f(c["plain"]["hi"]), initial=f(c["plain"]["x0"]))
        con = TotalSpendConstraint(budget_factor=f(c["con"])) if c0["hascon"] else None
        opt = Optimization(adjustments=[pkg, q], measurables=MaximizeMeasurable("x", [t]), constraints=con)
    except Exception as ex:
        out.update(outcome="error", err="constructor: %s: %s" % (type(ex).__name__, str(ex)[:200]))
        return out
    if bool(pkg.adjust_total_spend) != bool(c0["at"]):
        out.update(outcome="error", err="adjust_total_spend is %s, expected %s" % (pkg.adjust_total_spend, c0["at"]))
        return out
    alloc = {names[i]: TimeSeries([t], [init[i]]) for i in range(n)}
    alloc["Q"] = TimeSeries([t], [f(c["plain"]["x0"])])
    ins0 = at.ProgramInstructions(start_year=2019.0, alloc=alloc)
    it = sum(init)
    iprops = [v / it for v in init] if it else [1.0 / n] * n
    x0 = iprops + ([it] if c0["at"] else []) + [f(c["plain"]["x0"])]
    try:
        hard = opt.get_hard_constraints(x0, ins0)
    except UnresolvableConstraint:
        out["outcome"] = "unresolvable"
        return out
    except Exception as ex:
        out.update(outcome="error", err="get_hard_constraints: %s: %s" % (type(ex).__name__, str(ex)[:200]))
        return out
    prop = [f(v) for v in c["fr"]] + ([f(c0["p1"])] if c0["at"] else []) + [f(c["plain"]["x"])]
    ins = sc.dcp(ins0)
    try:
        with np.errstate(all="ignore"):
            opt.update_instructions(prop, ins)
        out.update(stage1=True, z1=[float(ins.alloc[m].get(t)) for m in names], q1=float(ins.alloc["Q"].get(t)))
        with np.errstate(all="ignore"):
            opt.constrain_instructions(ins, hard)
        out.update(stage2=True, z2=[float(ins.alloc[m].get(t)) for m in names], q2=float(ins.alloc["Q"].get(t)))
    except FailedConstraint:
        out["outcome"] = "failed"
    except Exception as ex:
        out.update(outcome="error", err="%s: %s: %s" % ("constrain_instructions" if out["stage1"] else "update_instructions", type(ex).__name__, str(ex)[:200]))
    if not all(np.isfinite(v) for v in out["z1"] + out["z2"] + [out["q1"], out["q2"]]):
        out.update(outcome="error", stage1=False, stage2=False, err="non-finite allocation %s %s" % (out["z1"], out["z2"]), z1=[0.0] * n, z2=[0.0] * n, q1=0.0, q2=0.0)
    return out


def packages(at, V, cov, thorough):
    records, index = [], {}
    rid = 0
    outcomes = {}
    for n, sample in ([(2, 0), (3, 12)] if thorough else [(2, 0), (3, 4)]):  # three members: proportion bounds and proposals sampled by TLC
        r, cases = C.enumerate_cases(["Rat", "Package", "MCPackage"], "MCPackage", cfg_pkg(n, sample), timeout=3000, generated=sampled_pkg_module(n, sample) if sample else None)
        cov["states"] += r.distinct
        cov["transitions"] += r.generated
        cov["plan"].append(dict(packages=True, members=n, sampled_per_choice=sample, cases=len(cases)))
        for c0 in cases:
            o = observe_pkg(at, c0)
            outcomes[o["outcome"]] = outcomes.get(o["outcome"], 0) + 1
            c = c0["case"]
            records.append(dict(id=rid, outcome=o["outcome"], stage1=o["stage1"], stage2=o["stage2"], pb=c["pb"], at=c0["at"], mint=c0["mint"], maxt=c0["maxt"], p1=c0["p1"],
                                hascon=c0["hascon"], total=c0["total"], unres=c0["unres"], satisfied=c0["satisfied"], lo=c["plain"]["lo"], hi=c["plain"]["hi"],
                                z1=FX.fixseq(o["z1"]), q1=FX.fix(o["q1"]), z2=FX.fixseq(o["z2"]), q2=FX.fix(o["q2"])))
            index[rid] = dict(case=c, derived={k: c0[k] for k in ("at", "mint", "maxt", "p1", "hascon", "total", "unres", "satisfied")}, observed=o)
            rid += 1
        cov["samples"].append(cases[len(cases) // 2])
    bad, states = C.validate_batch(["Rat", "Big", "PackageTrace"], "PackageTrace", records, timeout=3000)
    cov["states"] += states
    cov["transitions"] += states
    cov["traces_validated_against_impl"] += len(records)
    cov["package_outcomes"] = outcomes
    for rid_, clause in bad:
        d = index[rid_]
        what = d["observed"]["err"].split(":")[1].strip() if d["observed"]["err"] else ""
        V.violation("C14 package %s %s%s" % (clause, what, " zero package total proposed" if fr(d["derived"]["p1"]) == 0 else ""), dict(clause=clause, **d))


def run(prop, tier):
    t0 = time.time()
    at = C.quiet_atomica()
    V = C.Verdict(prop)
    thorough = tier == "thorough"
    # (programs, small bound set, sample): 1-3 programs exhaustively over the grids, 6 and 10 programs on random cases drawn by TLC
    plan = [(1, False, 0), (2, not thorough, 0)] + ([(3, True, 24)] if thorough else []) + [(6, False, 8 if thorough else 6), (10, False, 6 if thorough else 4)]
    cov = dict(states=0, transitions=0, traces_validated_against_impl=0, samples=[], exhaustive=True, plan=[])
    records, index = [], {}
    rid = 0
    outcomes = {}
    for n, small, sample in plan:
        r, cases = C.enumerate_cases(["Rat", "Alloc", "MCAlloc"], "MCAlloc", cfg(n, small, sample), timeout=3000, generated=sampled_module(n, small, sample) if sample else None)
        cov["states"] += r.distinct
        cov["transitions"] += r.generated
        cov["plan"].append(dict(n=n, small=small, sampled_per_choice=sample, cases=len(cases)))
        if sample:
            cov["exhaustive"] = False
            cov["exhaustive_note"] = "1-3 programs and the spending packages exhaustive over the grids; 6 and 10 programs on vectors drawn with the harness's seeded generator"
        for c0 in cases:
            outcome, z, err = observe(at, c0, split=(len(records) % 4 in (1, 3)), reverse=(len(records) % 4 == 2))
            outcomes[outcome] = outcomes.get(outcome, 0) + 1
            yrs = []
            for y, yr in enumerate(c0["year"]):
                yrs.append(dict(total=yr["total"], lower=yr["lower"], upper=yr["upper"], unresolvable=yr["unresolvable"], satisfied=yr["satisfied"], x=c0["case"]["x"][y],
                                z=FX.fixseq(z[y]) if z else [FX.fix(0.0) for _ in yr["lower"]]))
            records.append(dict(id=rid, outcome=outcome, years=yrs))
            index[rid] = dict(case=c0["case"], derived=c0["year"], outcome=outcome, z=z, error=err)
            rid += 1
        cov["samples"].append(cases[len(cases) // 2])
    bad, states = C.validate_batch(["Rat", "Big", "AllocTrace"], "AllocTrace", records, timeout=3000)
    cov["states"] += states
    cov["transitions"] += states
    cov["traces_validated_against_impl"] = len(records)
    cov["outcomes"] = outcomes
    packages(at, V, cov, thorough)
    for rid_, clause in bad:
        d = index[rid_]
        zero_total = any(fr(y["total"]) == 0 for y in d["derived"])
        V.violation("C14 %s%s %s" % (clause, " total=0" if zero_total else "", d["error"].split(":")[1].strip() if d["error"] else ""), dict(clause=clause, **d))
    return V, cov, time.time() - t0
