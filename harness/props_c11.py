"""C11: Program.get_capacity / get_prop_covered and ProgramSet.get_capacities / get_prop_coverage against spec/Coverage.tla."""
import time
from fractions import Fraction as Fr

import numpy as np

from . import common as C
from . import fix as FX

INVS = ["Bounded", "UpperOK", "ConstraintOK", "NobodyEligible", "MonoSpend", "MonoCost", "MonoCov", "DtIndependent", "Precedence"]
NONE = [-1, 1]
NONEP = [NONE, NONE]
YEAR = {"before": 2017.0, "at1": 2018.0, "between": 2019.0, "at2": 2020.0, "after": 2021.5}


def cfg():
    s = "SPECIFICATION Spec\nCONSTANTS\n"
    for k in ("Spends", "Costs", "Constraints", "Sats", "Eligs", "Dts", "Overwrites"):
        s += "  %s <- MC%s\n" % (k, k)
    return s + "".join("INVARIANT %s\n" % i for i in INVS) + "CHECK_DEADLOCK FALSE\n"


def fr(x):
    return Fr(x[0], x[1])


_PS = {}


def progset(at):
    if "ps" not in _PS:
        import sciris as sc

        P = at.demo("udt", do_run=False)
        _PS["ps"] = at.ProgramSet.new(tvec=np.array([2018.0]), progs=sc.odict([("P1", "Prog 1")]), framework=P.framework, data=P.data)
    return _PS["ps"]


def series(pair, units):
    from atomica.utils import TimeSeries

    return TimeSeries([2018.0, 2020.0], [float(fr(pair[0])), float(fr(pair[1]))], units=units)


_FORM = [0]


def observe(at, c):
    import sciris as sc
    from atomica.utils import TimeSeries

    ps = sc.dcp(progset(at))
    prog = ps.programs["P1"]
    prog.spend_data = series(c["spend"], "$/year")
    prog.unit_cost = TimeSeries(assumption=float(fr(c["cost"])), units="$/person (one-off)" if c["oneoff"] else "$/person/year")
    if c["ctype"] != "none":
        prog.capacity_constraint = TimeSeries(assumption=float(fr(c["cval"])), units="people/year" if c["ctype"] == "peryear" else "people")
    if c["sat"] != NONE:
        prog.saturation = TimeSeries(assumption=float(fr(c["sat"])), units="N.A.")
    ow = c["ow"]

    def form(pair, units):  # equal values: the documented scalar form (assigned to the start year) or a constant series, otherwise a two-point TimeSeries
        if pair[0] != pair[1]:
            return series(pair, units)
        v = fr(pair[0])
        _FORM[0] += 1
        if _FORM[0] % 3 == 1:  # a TimeSeries holding only an assumption, written the way a user types it (100 rather than 100.0)
            return TimeSeries(assumption=int(v) if v.denominator == 1 else float(v), units=units)
        return float(v)

    ins = at.ProgramInstructions(start_year=2016.0,
                                 alloc={"P1": form(ow["spend"], "$/year")} if ow["spend"] != NONEP else None,
                                 capacity={"P1": form(ow["cap"], "people/year")} if ow["cap"] != NONEP else None,
                                 coverage={"P1": form(ow["cov"], "N.A.")} if ow["cov"] != NONEP else None)
    t = np.array([YEAR[c["t"]]])
    dt = float(fr(c["dt"]))
    cap = ps.get_capacities(t, dt, ins)
    elig = np.array([float(fr(c["elig"]))])
    cov = ps.get_prop_coverage(t, dt, cap, {"P1": elig}, ins)
    direct = prog.get_prop_covered(t, cap["P1"], elig) if ow["cov"] == NONEP else None
    return float(cap["P1"][0]), float(cov["P1"][0]), (None if direct is None else float(direct[0]))


def run(prop, tier):
    t0 = time.time()
    at = C.quiet_atomica()
    V = C.Verdict(prop)
    thorough = tier == "thorough"
    gen = None
    if thorough:
        import os

        gen = {"MCCoverage.tla": open(os.path.join(C.SPEC, "MCCoverage.tla")).read()
               .replace("MCCosts == {<<1,2>>, <<20,1>>}", "MCCosts == {<<1,2>>, <<1,1>>, <<20,1>>}")
               .replace("MCDts == {<<1,12>>, <<1,4>>, <<1,1>>}", "MCDts == {<<1,12>>, <<1,10>>, <<1,4>>, <<1,1>>}")
               .replace("<<<<1,1>>, <<1,1>>>>}", "<<<<1,1>>, <<1,1>>>>, <<<<1000,1>>, <<7,1>>>>}")
               .replace("cov |-> {<<<<1,4>>, <<3,1>>>>}", "cov |-> {<<<<1,4>>, <<3,1>>>>, <<<<1,2>>, <<1,2>>>>}")}  # (a scalar coverage overwrite as well)
    r, cases = C.enumerate_cases(["Rat", "Coverage", "MCCoverage"], "MCCoverage", cfg(), timeout=3000, generated=gen)
    cov = dict(states=r.distinct, transitions=r.generated, traces_validated_against_impl=0, samples=[], exhaustive=True, cases=len(cases))
    records, index = [], {}
    groups_spend, groups_dt = {}, {}
    rid = 0
    for c0 in cases:
        c = c0["case"]
        try:
            ocap, ocov, odirect = observe(at, c)
        except Exception as ex:
            V.violation("C11 coverage computation raised %s" % type(ex).__name__, dict(case=c, error=str(ex)[:300]))
            continue
        bad = [v for v in (ocap, ocov, odirect) if v is not None and not np.isfinite(v)]
        if bad:
            V.violation("C11 non-finite capacity/coverage", dict(case=c, observed=[ocap, ocov, odirect]))
            continue
        records.append(dict(id=rid, kind="case", cap=c0["cap"], cov=c0["cov"], upper=c0["upper"], ocap=FX.fix(ocap), ocov=FX.fix(ocov),
                            hasdirect=odirect is not None, odirect=FX.fix(odirect if odirect is not None else 0.0)))
        index[rid] = c
        rid += 1
        key = {k: str(v) for k, v in c.items()}
        if c["ow"] == dict(spend=NONEP, cap=NONEP, cov=NONEP):
            eff = fr(c["spend"][1] if c["t"] in ("at2", "after") else c["spend"][0]) / fr(c["cost"])  # spending per unit cost
            kk = tuple(v for k, v in sorted(key.items()) if k not in ("spend", "cost"))
            groups_spend.setdefault(kk, []).append((eff, ocov, c))
            if c["oneoff"] and c["ctype"] != "abs":
                kk = tuple(v for k, v in sorted(key.items()) if k != "dt")
                groups_dt.setdefault(kk, []).append((c["dt"], ocap, c))
    for kk, lst in groups_spend.items():
        lst.sort(key=lambda x: x[0])
        for a, b in zip(lst, lst[1:]):
            records.append(dict(id=rid, kind="mono", lo=FX.fix(a[1]), hi=FX.fix(b[1])))
            index[rid] = dict(pair="spending/unit cost", lo=a[2], hi=b[2])
            rid += 1
    for kk, lst in groups_dt.items():
        for a, b in zip(lst, lst[1:]):
            records.append(dict(id=rid, kind="dt", cap1=FX.fix(a[1]), dt1=a[0], cap2=FX.fix(b[1]), dt2=b[0]))
            index[rid] = dict(pair="dt", a=a[2], b=b[2])
            rid += 1
    bad, states = C.validate_batch(["Rat", "Big", "CoverageTrace"], "CoverageTrace", records, timeout=3000)
    cov["states"] += states
    cov["transitions"] += states
    cov["traces_validated_against_impl"] = len(records)
    cov["pairs_monotone"] = sum(len(v) - 1 for v in groups_spend.values())
    cov["pairs_dt"] = sum(len(v) - 1 for v in groups_dt.values())
    for rid_, clause in bad[:60]:
        c = index[rid_]
        tag = "oneoff=%s sat=%s ctype=%s ow=%s" % (c.get("oneoff"), c.get("sat") != NONE if "sat" in c else "?", c.get("ctype"), [k for k, v in c.get("ow", {}).items() if v != NONEP]) if "oneoff" in c else c.get("pair")
        V.violation("C11 %s %s" % (clause, tag), dict(clause=clause, case=c))
    cov["samples"] = [cases[0], cases[len(cases) // 3]]
    return V, cov, time.time() - t0
