"""C09: interventions have no effect before they start (spec/Scenario.tla + paired real runs judged by PairTrace.tla)."""
import os
import time

import numpy as np

from . import common as C
from . import fix as FX
from .props_c10 import outputs


def before(res, year):
    """All outputs restricted to the indices with t < year (flows / parameters: the values for the steps starting there)."""
    t = np.asarray(res.model.t)
    n = int(np.sum(t < year))
    return {k: v[:n] for k, v in outputs(res, 0).items()}, n


def pair(records, index, rid, label, ra, rb, year, tol="exact"):
    a, n = before(ra, year)
    b, _ = before(rb, year)
    for key in sorted(set(a) | set(b)):
        if key not in a or key not in b:
            records.append(dict(id=rid, tol=tol, a=[FX.fix(0.0)], b=[]))
            index[rid] = dict(label=label, key=key, problem="output missing in one run")
            rid += 1
            continue
        x, y = a[key], b[key]
        if not np.array_equal(np.isfinite(x), np.isfinite(y)):
            records.append(dict(id=rid, tol=tol, a=[FX.fix(0.0)], b=[]))
            index[rid] = dict(label=label, key=key, problem="NaN pattern differs before the start year")
            rid += 1
            continue
        ok = np.isfinite(x)
        records.append(dict(id=rid, tol=tol, a=FX.fixseq(x[ok]), b=FX.fixseq(y[ok])))
        d = np.nonzero(x[ok] != y[ok])[0]
        index[rid] = dict(label=label, key=key, n_before=n, first_difference=(None if len(d) == 0 else dict(index=int(d[0]), with_intervention=float(x[ok][d[0]]), without=float(y[ok][d[0]]))))
        rid += 1
    return rid


def run(prop, tier):
    t0 = time.time()
    at = C.quiet_atomica()
    V = C.Verdict(prop)
    thorough = tier == "thorough"
    gen = None
    if not thorough:
        gen = {"MCScenario.tla": open(os.path.join(C.SPEC, "MCScenario.tla")).read().replace("<<8009,4>>, <<2004,1>>}", "<<8009,4>>}").replace(", <<<<2000,1>>, <<1,3>>, 9>>}", "}")}
    d = C.prepare_specdir(["Rat", "Scenario", "MCScenario"], gen)
    r = C.run_tlc(d, "MCScenario", cfg="Scenario.cfg", timeout=2400)
    if r.violated:
        raise C.MachineryError("Scenario specification property refuted: %s\n%s" % (r.violated, r.out[-2000:]))
    C.tlc_ok(r, "Scenario")
    cov = dict(states=r.distinct, transitions=r.generated, traces_validated_against_impl=0, samples=[], exhaustive=True, paired_runs=0)
    records, index = [], {}
    rid = 0
    from atomica.utils import TimeSeries

    models = ["udt", "tb_simple", "hiv"] + (["hypertension", "usdt", "tb"] if thorough else ["tb"])
    for name in models:
        P = at.demo(name, do_run=False)
        ps = P.parsets[0]
        pg = P.progsets[0] if P.progsets else None
        s0, dt = float(P.settings.sim_start), float(P.settings.sim_dt)
        if name == "tb":
            P.settings.update_time_vector(end=s0 + (8 if thorough else 5))
        base = P.run_sim(ps, store_results=False)
        npairs = 0
        # --- program start year, on and off the time grid
        if pg is not None:
            for Y in (s0 + 3, s0 + 2 + dt / 3, s0 + 4 + 2 * dt / 3):
                rp = P.run_sim(ps, pg, at.ProgramInstructions(start_year=Y, alloc=pg), store_results=False)
                rid = pair(records, index, rid, dict(model=name, intervention="program start", Y=Y), rp, base, Y)
                npairs += 1
            # --- spending / capacity / coverage change dated Y in a series that states the prior value
            progs = [k for k, p in pg.programs.items() if p.spend_data.has_data]
            s_start = s0 + 1
            for Y in (s0 + 4, s0 + 3 + dt / 2):
                for kind in ("alloc", "capacity", "coverage"):
                    kw0, kw1 = {}, {}
                    for j, pn in enumerate(progs[:2]):
                        v0 = float(pg.programs[pn].spend_data.interpolate(s_start, method="previous")[0]) if kind == "alloc" else (150.0 + 10 * j if kind == "capacity" else 0.3)
                        v1 = v0 * 4 + 7 if kind != "coverage" else 0.95
                        kw0[pn] = TimeSeries([s_start], [v0])
                        kw1[pn] = TimeSeries([s_start, Y], [v0, v1])
                    r0 = P.run_sim(ps, pg, at.ProgramInstructions(start_year=s_start, alloc=pg, **({kind: kw0} if kind != "alloc" else {})) if kind != "alloc" else at.ProgramInstructions(start_year=s_start, alloc=kw0), store_results=False)
                    r1 = P.run_sim(ps, pg, at.ProgramInstructions(start_year=s_start, alloc=pg, **({kind: kw1} if kind != "alloc" else {})) if kind != "alloc" else at.ProgramInstructions(start_year=s_start, alloc=kw1), store_results=False)
                    rid = pair(records, index, rid, dict(model=name, intervention="%s change" % kind, Y=Y), r1, r0, Y)
                    npairs += 1
                # the value in force before Y dated before the programs are switched on (stepped series: it holds from the start year until Y)
                kw0 = {pn: TimeSeries([s_start - 1.0], [float(pg.programs[pn].spend_data.interpolate(s_start, method="previous")[0])]) for pn in progs[:2]}
                kw1 = {pn: TimeSeries([s_start - 1.0, Y], [float(ts_.vals[0]), float(ts_.vals[0]) * 4 + 7]) for pn, ts_ in kw0.items()}
                rid = pair(records, index, rid, dict(model=name, intervention="alloc change, prior value dated before the start year", Y=Y),
                           P.run_sim(ps, pg, at.ProgramInstructions(start_year=s_start, alloc=kw1), store_results=False), P.run_sim(ps, pg, at.ProgramInstructions(start_year=s_start, alloc=kw0), store_results=False), Y)
                npairs += 1
        # --- the same budget change written by an optimisation adjustment (SpendingAdjustment.update_instructions inserts the value at Y into the
        #     allocation that already states the spending from the program start year)
        try:
            from atomica.optimization import SpendingAdjustment
            import sciris as sc

            for Y in (s0 + 3, s0 + 2 + dt / 2):
                ins0 = at.ProgramInstructions(start_year=s0 + 1, alloc=pg)
                pn = [k for k, ts_ in ins0.alloc.items() if float(ts_.get(s0 + 1)) > 0][0]
                ins1 = sc.dcp(ins0)
                SpendingAdjustment(pn, Y, "abs", 0.0, 1e12).update_instructions([float(ins0.alloc[pn].get(s0 + 1)) * 4 + 7], ins1)
                rid = pair(records, index, rid, dict(model=name, intervention="spending change written by SpendingAdjustment.update_instructions", Y=Y), P.run_sim(ps, pg, ins1, store_results=False), P.run_sim(ps, pg, ins0, store_results=False), Y)
                npairs += 1
        except Exception as ex:
            V.violation("C09 SpendingAdjustment.update_instructions raised %s" % type(ex).__name__, dict(model=name, error=str(ex)[:200]))
        # --- parameter scenarios: data parameters, function parameters, transfers, interactions; linear and stepped
        F = P.framework
        pops = list(ps.pop_names)
        datapars = [p for p in F.pars.index if p in ps.pars and not isinstance(F.pars.at[p, "function"], str) and ps.pars[p].has_values(pops[0])][:2]
        fnpars = []
        m0 = base.model
        for p in F.pars.index:
            if isinstance(F.pars.at[p, "function"], str) and p in ps.pars:
                mp = m0.pops[0].get_par(p) if p in m0.pops[0].par_lookup else None
                if mp is not None and mp._is_dynamic and not mp.pop_aggregation and not mp.derivative and F.transitions.get(p):
                    fnpars.append(p)
        # one function parameter evaluated during the run (depends on compartments) and one evaluated beforehand (depends on databook parameters only)
        pre = []
        for p in F.pars.index:
            if isinstance(F.pars.at[p, "function"], str) and p in ps.pars and p in m0.pops[0].par_lookup:
                mp = m0.pops[0].get_par(p)
                if not mp._is_dynamic and not mp.pop_aggregation and not mp.derivative and (F.transitions.get(p) or any(p in str(F.pars.at[q_, "function"]) for q_ in F.pars.index if F.transitions.get(q_))):
                    pre.append(p)
        fnpars = fnpars[:1] + pre[:1]
        for par in datapars + fnpars:
            for interp in ("linear", "previous"):
                for Y in (s0 + 3, s0 + 2 + dt / 2):
                    cur = float(np.nan_to_num(m0.pops[0].get_par(par).vals[3], nan=0.1))
                    scen = at.ParameterScenario(name="s", interpolation=interp)
                    scen.add(par, pops[0], [Y, Y + 2], [cur * 1.7 + 0.01, cur * 0.4 + 0.02])
                    ps2 = scen.get_parset(ps, P)
                    try:
                        r1 = P.run_sim(ps2, store_results=False)
                    except Exception as ex:
                        V.violation("C09 scenario run raised %s" % type(ex).__name__, dict(model=name, par=par, error=str(ex)[:200]))
                        continue
                    rid = pair(records, index, rid, dict(model=name, intervention="parameter scenario (%s) on %s parameter" % (interp, "function" if par in fnpars else "data"), par=par, Y=Y), r1, base, Y)
                    npairs += 1
        # --- a scenario whose first point lies after the end of the simulation changes nothing in it
        for par in (datapars[:1] + fnpars[:1]):
            scen = at.ParameterScenario(name="later", interpolation="linear")
            scen.add(par, pops[0], [float(P.settings.sim_end) + 5.0], [0.123])
            try:
                r1 = P.run_sim(scen.get_parset(ps, P), store_results=False)
                rid = pair(records, index, rid, dict(model=name, intervention="parameter scenario starting after the end of the simulation", par=par, Y=float(P.settings.sim_end) + 5.0), r1, base, float(P.settings.sim_end) + 5.0)
                npairs += 1
            except Exception as ex:
                V.violation("C09 scenario starting after the end raised %s" % type(ex).__name__, dict(model=name, par=par, error=str(ex)[:200]))
        # --- weekly steps (years that differ by less than 0.02 are different time points): a scenario on a function parameter, Y on and off the grid
        if name == models[0] and fnpars:
            e_old = float(P.settings.sim_end)
            P.settings.update_time_vector(end=s0 + 5.0, dt=1.0 / 52)
            try:
                bw = P.run_sim(ps, store_results=False)
                for par in fnpars:
                    for Y in (float(bw.model.t[130]), float(bw.model.t[150]) + 0.005):
                        cur = float(np.nan_to_num(bw.model.pops[0].get_par(par).vals[3], nan=0.1))
                        scen = at.ParameterScenario(name="s", interpolation="previous")
                        scen.add(par, pops[0], [Y], [cur * 1.7 + 0.01])
                        rid = pair(records, index, rid, dict(model=name, intervention="parameter scenario on function parameter, weekly steps", par=par, Y=Y), P.run_sim(scen.get_parset(ps, P), store_results=False), bw, Y)
                        npairs += 1
            finally:
                P.settings.update_time_vector(end=e_old, dt=dt)
        # --- stacked scenarios: a second overwrite starting later must not undo the first one before its own start year
        for par in (datapars[:1] + fnpars):
            Y1, Y2 = s0 + 2, s0 + 4 + dt / 2
            cur = float(np.nan_to_num(m0.pops[0].get_par(par).vals[2], nan=0.1))
            sc1 = at.ParameterScenario(name="s1", interpolation="previous")
            sc1.add(par, pops[0], [Y1], [cur * 1.6 + 0.01])
            ps1 = sc1.get_parset(ps, P)
            sc2 = at.ParameterScenario(name="s2", interpolation="previous")
            sc2.add(par, pops[0], [Y2], [cur * 0.5 + 0.02])
            ps2 = sc2.get_parset(ps1, P)
            rid = pair(records, index, rid, dict(model=name, intervention="second (stacked) parameter scenario on %s parameter" % ("function" if par in fnpars else "data"), par=par, Y=Y2),
                       P.run_sim(ps2, store_results=False), P.run_sim(ps1, store_results=False), Y2)
            npairs += 1
        for coll, what in ((ps.transfers, "transfer"), (ps.interactions, "interaction")):
            for tname in list(coll.keys())[:1]:
                for src in list(coll[tname].keys())[:1]:
                    par = coll[tname][src]
                    dst = list(par.ts.keys())[0]
                    for interp in ("linear", "previous"):
                        Y = s0 + 2 + dt / 2
                        cur = float(par.interpolate(np.array([Y]), dst)[0])
                        scen = at.ParameterScenario(name="s", interpolation=interp)
                        scen.add(tname, (src, dst), [Y, Y + 1], [cur * 2 + 0.01, cur * 0.5])
                        ps2 = scen.get_parset(ps, P)
                        r1 = P.run_sim(ps2, store_results=False)
                        rid = pair(records, index, rid, dict(model=name, intervention="parameter scenario (%s) on %s" % (interp, what), par=tname, Y=Y), r1, base, Y)
                        npairs += 1
        # --- extending the end year does not change earlier outputs (plain, and with a linear parameter scenario whose last point lies
        #     between the two end years: the short run ramps towards a value it never reaches)
        e0 = float(P.settings.sim_end)
        for ext in (3.0, 2 * dt + dt / 3):
            for variant in ("plain", "linear scenario ramping across the end year"):
                if variant != "plain" and not datapars:
                    continue

                def mkps():
                    if variant == "plain":
                        return ps
                    cur = float(np.nan_to_num(m0.pops[0].get_par(datapars[0]).vals[2], nan=0.1))
                    scen = at.ParameterScenario(name="s", interpolation="linear")
                    scen.add(datapars[0], pops[0], [e0 - 2.0, e0 + ext / 2], [cur * 1.5 + 0.01, cur * 0.5 + 0.02])
                    return scen.get_parset(ps, P)

                rs = base if variant == "plain" else P.run_sim(mkps(), store_results=False)
                P.settings.update_time_vector(end=e0 + ext)
                rl = P.run_sim(mkps(), store_results=False)
                P.settings.update_time_vector(end=e0)
                a = outputs(rs, 0)
                n = len(rs.model.t)
                b = {k: v[:n] for k, v in outputs(rl, 0).items()}
                for key in sorted(a):
                    x, y = a[key], b.get(key, np.array([]))
                    m_ = min(len(x), len(y))
                    if key.startswith(("L:", "P:")):
                        m_ -= 1
                    x, y = x[:m_], y[:m_]
                    ok = np.isfinite(x) & np.isfinite(y)
                    records.append(dict(id=rid, tol="1e-12", a=FX.fixseq(x[ok]), b=FX.fixseq(y[ok])))
                    index[rid] = dict(label=dict(model=name, intervention="end year extended by %.3f (%s)" % (ext, variant)), key=key)
                    rid += 1
                npairs += 1
        cov["paired_runs"] += npairs
    # --- a scenario on a derivative parameter (its function gives the rate of change): unchanged before Y, the scenario values from Y on
    try:
        from . import props_c13 as P13

        Pg, psg, _pgg = P13.gen_project(at, 0.25)
        baseg = Pg.run_sim(psg, store_results=False)
        for Y in (2004.0, 2003.0 + 0.25 / 2):
            scen = at.ParameterScenario(name="s", interpolation="previous")
            scen.add("dv", "p0", [Y], [0.3])
            rg = Pg.run_sim(scen.get_parset(psg, Pg), store_results=False)
            lab = dict(model="generated (derivative parameter)", intervention="parameter scenario on a derivative parameter", par="dv", Y=Y)
            rid = pair(records, index, rid, lab, rg, baseg, Y)
            vals = np.asarray(rg.model.get_pop("p0").get_par("dv").vals, dtype=float)
            idx = [k for k in range(len(rg.model.t) - 1) if rg.model.t[k] >= Y]
            records.append(dict(id=rid, tol="1e-12", a=FX.fixseq(np.nan_to_num(vals[idx], nan=-1.0)), b=FX.fixseq(np.full(len(idx), 0.3))))
            index[rid] = dict(label=dict(lab, intervention="parameter scenario on a derivative parameter: values from Y on"), key="P:p0/dv", values=[float(x) for x in vals[idx][:4]], scenario=0.3)
            rid += 1
            cov["paired_runs"] += 1
    except Exception as ex:
        V.violation("C09 scenario on a derivative parameter raised %s" % type(ex).__name__, dict(error=str(ex)[:300]))
    bad, states = C.validate_batch(["Big", "PairTrace"], "PairTrace", records, ndjson=True, timeout=3000)
    cov["states"] += states
    cov["transitions"] += states
    cov["traces_validated_against_impl"] = len(records)
    for rid_, clause in bad:
        dd = index[rid_]
        V.violation("C09 %s %s %s" % (clause, dd["label"]["intervention"], "on grid" if abs(dd["label"].get("Y", 0.5) - round(dd["label"].get("Y", 0.5))) < 1e-9 else "off grid"), dict(clause=clause, **dd))
    cov["samples"] = [index[0], index[len(index) // 2]]
    return V, cov, time.time() - t0
