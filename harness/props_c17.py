"""C17: sampled runs are independent draws (spec/Sampling.tla), schedules replayed with real forks."""
import os
import pickle
import time

import numpy as np

from . import common as C
from . import digest as DG


def cfg(W, S, reseed, parallel, view=True):
    s = "SPECIFICATION Spec\nCONSTANTS\n  W = %d\n  S = %d\n  ReseedOnWorkerInit = %s\n  DrawsPerSample = 2\n  Parallel = %s\n  PriorPositions = {0, 1, 3}\n" % (W, S, "TRUE" if reseed else "FALSE", "TRUE" if parallel else "FALSE")
    s += "INVARIANT Distinct\nPROPERTY SourceUntouched\nCHECK_DEADLOCK FALSE\n"
    return s


def probe_reseed():
    """Does the real pool initialiser give a forked worker its own generator state? (child state after _worker_init vs parent's)"""
    from atomica.utils import _worker_init

    np.random.seed(12345)
    parent = np.random.get_state()[1][:8].tolist()
    r, w = os.pipe()
    pid = os.fork()
    if pid == 0:
        os.close(r)
        _worker_init()
        os.write(w, pickle.dumps(np.random.get_state()[1][:8].tolist()))
        os._exit(0)
    os.close(w)
    data = b""
    while True:
        ch = os.read(r, 65536)
        if not ch:
            break
        data += ch
    os.waitpid(pid, 0)
    return pickle.loads(data) != parent


def run_schedule(P, ps, progset, schedule, prior):
    """schedule: {worker: [samples in order]} (worker 0 = serial in this process). Returns {sample: digest}."""
    from atomica.utils import _worker_init

    np.random.seed(777)
    for _ in range(prior):
        np.random.randn(3)  # any prior state of the global generator

    def draw():
        d = DG.sampled_digest(ps.sample())
        if progset is not None:
            d += DG.sampled_digest(progset.sample())
        return d

    res = {}
    if list(schedule) == [0]:
        for s in schedule[0]:
            res[s] = draw()
        return res
    pipes = []
    for wk, samples in schedule.items():
        r, w = os.pipe()
        pid = os.fork()
        if pid == 0:
            os.close(r)
            try:
                _worker_init()
                out = [(s, draw()) for s in samples]
                os.write(w, pickle.dumps(out))
            finally:
                os._exit(0)
        os.close(w)
        pipes.append((pid, r))
    for pid, r in pipes:
        data = b""
        while True:
            ch = os.read(r, 65536)
            if not ch:
                break
            data += ch
        os.waitpid(pid, 0)
        res.update(dict(pickle.loads(data)))
    return res


def uncertain_project(at, name="udt", sigma=0.05):
    P = at.demo(name, do_run=False)
    ps = P.parsets[0]
    n = 0
    for par in ps.all_pars():
        for ts in par.ts.values():
            if ts.has_data:
                ts.sigma = sigma
                n += 1
    return P, ps, n


def run(prop, tier):
    t0 = time.time()
    at = C.quiet_atomica()
    V = C.Verdict(prop)
    thorough = tier == "thorough"
    reseed = probe_reseed()
    cov = dict(states=0, transitions=0, traces_validated_against_impl=0, samples=[], exhaustive=True, reseed_on_worker_init_observed=reseed)
    # ---- P_spec under the observed constant, and the counterexample schedule when it fails
    design_ok = True
    schedules = []
    for (W, S) in ([(2, 3), (3, 4)] + ([(4, 5)] if thorough else [])):
        for parallel in (True, False):
            d = C.prepare_specdir(["Sampling"], {"S.cfg": cfg(W, S, reseed, parallel)})
            r = C.run_tlc(d, "Sampling", cfg="S.cfg", dump=os.path.join(d, "dump"), timeout=1200)
            cov["states"] += r.distinct
            cov["transitions"] += r.generated
            if r.violated:
                design_ok = False
                cov.setdefault("design_counterexamples", []).append(dict(W=W, S=S, parallel=parallel, violated=r.violated))
            else:
                C.tlc_ok(r, "Sampling")
            if os.path.exists(os.path.join(d, "dump.dump")):
                schedules += C.parse_obs(open(os.path.join(d, "dump.dump")).read())
    if not design_ok:
        # the design with the observed initialiser admits duplicate draws: enumerate its schedules anyway (invariant off) so that the real code is confronted with them
        for (W, S) in [(2, 3), (3, 4)]:
            d = C.prepare_specdir(["Sampling"], {"S.cfg": cfg(W, S, reseed, True).replace("INVARIANT Distinct\n", "")})
            r = C.run_tlc(d, "Sampling", cfg="S.cfg", dump=os.path.join(d, "dump"), timeout=1200)
            C.tlc_ok(r, "Sampling (schedules)")
            schedules += C.parse_obs(open(os.path.join(d, "dump.dump")).read())
    # distinct per-worker sequences
    uniq = {}
    for sc_ in schedules:
        plan = {}
        for w, s in sc_["runs"]:
            plan.setdefault(w, []).append(s)
        key = (sc_["prior"], tuple(sorted((w, tuple(v)) for w, v in plan.items())))
        uniq[key] = (sc_["prior"], plan)
    plans = list(uniq.values())
    rng = np.random.default_rng(C.seed())
    nmax = 1500 if thorough else 250
    if len(plans) > nmax:
        idx = rng.permutation(len(plans))[:nmax]
        plans = [plans[i] for i in idx]
    cov["schedules_enumerated"] = len(uniq)
    cov["schedules_replayed"] = len(plans)
    # ---- direction A: replay schedules with real forks
    P, ps, nunc = uncertain_project(at)
    progset = P.progsets[0] if P.progsets else None
    if progset is not None:
        for prog in progset.programs.values():
            if prog.unit_cost.has_data:
                prog.unit_cost.sigma = 0.1
    records = []
    index = {}
    rid = 0
    for prior, plan in plans:
        before = DG.dig(ps) + (DG.dig(progset) if progset is not None else "")
        res = run_schedule(P, ps, progset, plan, prior)
        after = DG.dig(ps) + (DG.dig(progset) if progset is not None else "")
        records.append(dict(id=rid, kind="schedule", digests=[res[s] for s in sorted(res)], before=before, after=after))
        index[rid] = dict(kind="forked schedule" if list(plan) != [0] else "serial", plan={str(k): v for k, v in plan.items()}, prior=prior, digests=res)
        rid += 1
    # ---- real pool runs (whatever schedule the pool produces)
    for (n, nw) in ([(4, 2), (8, 4)] + ([(16, 8), (32, 16), (6, 1)] if thorough else [])):
        before = DG.dig(ps)
        np.random.seed(4242)
        results = P.run_sampled_sims(n_samples=n, parset=ps, parallel=True, num_workers=nw)
        after = DG.dig(ps)
        records.append(dict(id=rid, kind="schedule", digests=[DG.result_digest(r[0]) for r in results], before=before, after=after))
        index[rid] = dict(kind="Project.run_sampled_sims(parallel=True)", n_samples=n, num_workers=nw)
        rid += 1
        results = P.run_sampled_sims(n_samples=min(n, 4), parset=ps, parallel=False)
        records.append(dict(id=rid, kind="schedule", digests=[DG.result_digest(r[0]) for r in results], before=before, after=DG.dig(ps)))
        index[rid] = dict(kind="Project.run_sampled_sims(parallel=False)", n_samples=min(n, 4))
        rid += 1
    # ---- Ensemble.run_sims (a second pool implementation: sc.parallelize), serial and parallel, in a fresh process
    import json
    import subprocess
    import sys

    try:
        pr = subprocess.run([sys.executable, "-m", "harness.ensemble_probe", "8" if thorough else "5"], cwd=C.VERIF, stdout=subprocess.PIPE, stderr=subprocess.STDOUT, text=True, timeout=600)
    except subprocess.TimeoutExpired as ex:
        raise C.MachineryError("Ensemble.run_sims probe did not finish within 600 s") from ex
    lines = [l for l in pr.stdout.splitlines() if l.startswith("ENSEMBLE ")]
    if not lines:
        raise C.MachineryError("Ensemble.run_sims probe failed:\n" + pr.stdout[-1500:])
    for e in json.loads(lines[-1][9:]):
        records.append(dict(id=rid, kind="schedule", digests=e["digests"], before=e["before"], after=e["after"]))
        index[rid] = dict(kind="Ensemble.run_sims(parallel=%s)" % e["parallel"], digests=e["digests"])
        rid += 1
    # ---- zero / no uncertainty: sampled run equals unsampled run; every valid program book can be sampled
    for name in (["udt", "tb_simple", "hiv"] + (["usdt", "hypertension", "tb"] if thorough else [])):
        Q = at.demo(name, do_run=False)
        q = Q.parsets[0]
        pg = Q.progsets[0] if Q.progsets else None
        for sig in (None, 0.0):
            for par in q.all_pars():
                for ts in par.ts.values():
                    ts.sigma = sig
            before = DG.dig(q)
            base = DG.result_digest(Q.run_sim(q))
            samp = DG.result_digest(Q.run_sim(q.sample()))
            records.append(dict(id=rid, kind="zero", sampled=samp, unsampled=base, before=before, after=DG.dig(q)))
            index[rid] = dict(kind="zero uncertainty parset", model=name, sigma=sig)
            rid += 1
        if pg is not None:
            import sciris as sc
            from atomica.utils import TimeSeries

            # program sets with no uncertainty: the sampled program set must run exactly like the source, also when the optional
            # saturation / capacity-constraint rows are in use
            for variant in ("as is", "with saturation and capacity constraint"):
                g = sc.dcp(pg)
                progs = list(g.programs.values())
                if variant != "as is":
                    progs[0].saturation = TimeSeries(assumption=0.8, units="N.A.")
                    progs[-1].capacity_constraint = TimeSeries(assumption=1e5, units="people/year")
                ins = at.ProgramInstructions(start_year=float(Q.settings.sim_start + 3), alloc=g)
                for par in q.all_pars():
                    for ts in par.ts.values():
                        ts.sigma = None
                before = DG.dig(g)
                try:
                    base = DG.result_digest(Q.run_sim(q, g, ins, store_results=False))
                    samp = DG.result_digest(Q.run_sim(q, g.sample(), ins, store_results=False))
                    records.append(dict(id=rid, kind="zero", sampled=samp, unsampled=base, before=before, after=DG.dig(g)))
                    index[rid] = dict(kind="zero uncertainty progset", model=name, variant=variant)
                except Exception as ex:
                    records.append(dict(id=rid, kind="book", ok=False))
                    index[rid] = dict(kind="program book sampleable", model=name, variant=variant, error="%s: %s" % (type(ex).__name__, str(ex)[:150]))
                rid += 1

            for variant in ("as is", "explicit interactions", "explicit interactions, sigma None", "explicit interactions, sigma 0"):
                g = sc.dcp(pg)
                if variant != "as is":
                    for co in g.covouts.values():
                        if len(co.progs) >= 2:
                            names = list(co.progs.keys())[:2]
                            co.imp_interaction = "%s+%s=%r" % (names[0], names[1], float(max(co.progs.values())))
                            co.__init__(co.par, co.pop, co.progs, cov_interaction=co.cov_interaction, imp_interaction=co.imp_interaction,
                                        uncertainty=(None if "None" in variant else 0.0 if "sigma 0" in variant else 0.05), baseline=co.baseline)
                try:
                    before = DG.dig(g)
                    g.sample()
                    ok = DG.dig(g) == before
                    err = "" if ok else "source program set changed by sample()"
                except Exception as ex:
                    ok, err = False, "%s: %s" % (type(ex).__name__, str(ex)[:150])
                records.append(dict(id=rid, kind="book", ok=ok))
                index[rid] = dict(kind="program book sampleable", model=name, variant=variant, error=err)
                rid += 1
    # ---- one uncertain quantity at a time ("all models with at least one uncertain quantity"): whatever form the single uncertain
    # entry takes - time data, a constant, a constant or data equal to zero, a program's spending / unit cost / capacity constraint /
    # saturation, an outcome row - the samples of one call differ pairwise and the source is left alone
    import sciris as sc
    from atomica.utils import TimeSeries

    def clear(obj):
        if hasattr(obj, "all_pars"):
            for par in obj.all_pars():
                for ts in par.ts.values():
                    ts.sigma = None
        else:
            for prog in obj.programs.values():
                for ts in (prog.spend_data, prog.unit_cost, prog.capacity_constraint, prog.saturation, prog.coverage):
                    ts.sigma = None
            for co in obj.covouts.values():
                co.sigma = None

    def behaviour(obj):
        """What a simulation reads from a (sampled) parameter set / program set: interpolated parameter values; spending, unit costs, constraints
        and the outcome of every effect row at a fixed coverage (through Covout.get_outcome, i.e. the cached combination outcomes)."""
        tt = np.array([2016.0, 2017.5, 2019.0])
        if hasattr(obj, "all_pars"):
            return [[str(k), [float(x) for x in np.ravel(par.interpolate(tt, k))]] for par in obj.all_pars() for k in par.ts.keys() if par.ts[k].has_data]
        out = []
        for prog in obj.programs.values():
            for ts in (prog.spend_data, prog.unit_cost, prog.capacity_constraint, prog.saturation, prog.coverage):
                out.append([float(x) for x in np.ravel(ts.interpolate(tt))] if ts.has_data else None)
        for key, co in obj.covouts.items():
            if len(co.progs):
                out.append([str(key), float(co.get_outcome({k_: np.array([0.6]) for k_ in co.progs}))])
        return out

    singles = []
    for name in (["udt", "tb"] + (["tb_simple", "hiv"] if thorough else [])):
        Q = at.demo(name, do_run=False)
        q0 = Q.parsets[0]
        clear(q0)
        groups = [("parameter", list(q0.pars.values())), ("transfer", [x for d in q0.transfers.values() for x in d.values()]), ("interaction", [x for d in q0.interactions.values() for x in d.values()])]
        for gname, plist in groups:
            cand = [(par, pop) for par in plist for pop, ts in par.ts.items() if ts.has_data]
            if not cand:
                continue
            for form in ("as entered", "constant", "constant zero", "time data all zero"):
                q = sc.dcp(q0)
                par, pop = cand[0]
                ts = [x for x in (list(q.pars.values()) + [x for d in q.transfers.values() for x in d.values()] + [x for d in q.interactions.values() for x in d.values()]) if x.name == par.name][0].ts[pop]
                if form == "constant":
                    ts.t, ts.vals, ts.assumption = [], [], 0.25
                elif form == "constant zero":
                    ts.t, ts.vals, ts.assumption = [], [], 0.0
                elif form == "time data all zero":
                    ts.t, ts.vals, ts.assumption = [2016.0, 2018.0], [0.0, 0.0], None
                ts.sigma = 0.1
                singles.append((dict(model=name, source="parameter set", quantity="%s %s (%s)" % (gname, par.name, pop), form=form), q))
        if Q.progsets and name != "tb":
            g0 = sc.dcp(Q.progsets[0])
            clear(g0)
            pname = list(g0.programs.keys())[0]
            for attr, zero_ok in (("spend_data", True), ("unit_cost", False), ("capacity_constraint", True), ("saturation", True), ("coverage", True)):
                for form in ("as entered", "constant", "constant zero"):
                    if form == "constant zero" and not zero_ok:
                        continue
                    g = sc.dcp(g0)
                    ts = getattr(g.programs[pname], attr)
                    if form == "as entered" and not ts.has_data:
                        continue
                    if form == "constant":
                        ts.t, ts.vals, ts.assumption = [], [], 0.5
                    elif form == "constant zero":
                        ts.t, ts.vals, ts.assumption = [], [], 0.0
                    ts.sigma = 0.1
                    singles.append((dict(model=name, source="program set", quantity="%s of %s" % (attr, pname), form=form), g))
            for key in [k_ for k_, co_ in g0.covouts.items() if len(co_.progs)][:2]:  # (an effect row without any program outcome has nothing to perturb)
                g = sc.dcp(g0)
                g.covouts[key].sigma = 0.05
                singles.append((dict(model=name, source="program set", quantity="outcomes of %s" % (key,), form="as entered"), g))
    for label, obj in singles:
        before = DG.dig(obj)
        np.random.seed(C.seed() + rid)
        try:
            digs = [DG.dig(behaviour(obj.sample())) for _ in range(3)]
        except Exception as ex:  # a valid parameter set / program book that cannot be sampled
            records.append(dict(id=rid, kind="book", ok=False))
            index[rid] = dict(kind="single uncertain quantity: %s, %s" % (label["source"], label["form"]), error="%s: %s" % (type(ex).__name__, str(ex)[:150]), **label)
            rid += 1
            continue
        records.append(dict(id=rid, kind="schedule", digests=digs, before=before, after=DG.dig(obj)))
        index[rid] = dict(kind="single uncertain quantity: %s, %s" % (label["source"], label["form"]), **label)
        rid += 1
    cov["single_quantity_cases"] = len(singles)
    bad, states = C.validate_batch(["SamplingTrace"], "SamplingTrace", records, chunks=1)
    cov["states"] += states
    cov["transitions"] += states
    cov["traces_validated_against_impl"] = len(records)
    cov["uncertain_series"] = nunc
    for rid_, clause in bad:
        d = index[rid_]
        V.violation("C17 %s %s" % (clause, d["kind"] + ((" " + d["variant"].split(",")[0]) if "variant" in d else "")), dict(clause=clause, **d))
    cov["samples"] = [index[0], index[len(index) - 1]]
    return V, cov, time.time() - t0
